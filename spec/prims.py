"""Primitive predicates of the spec functions: native definitions (used by replays/audits).

Symbolically each is the *same* uninterpreted function the engine uses for the corresponding
CPython builtin (pyvc/laws.py), so "accepts exactly the integers int() accepts" is provable
without string arithmetic; natively they are computed with the real builtins."""
import math
import re


def int_ok(s):
    try:
        int(s)
        return True
    except (ValueError, TypeError):
        return False


def int_of(s):
    return int(s)


def float_in(s, lo, hi):
    """s parses as a float that is not NaN and lies in [lo, hi]."""
    try:
        v = float(s)
    except (ValueError, TypeError):
        return False
    if math.isnan(v):
        return False
    return lo <= v <= hi


def float_ok(s):
    try:
        float(s)
        return True
    except (ValueError, TypeError):
        return False


def is_hex(s, n):
    """exactly n ASCII hex digits"""
    return isinstance(s, str) and re.fullmatch(r"[0-9A-Fa-f]{%d}" % n, s) is not None


_VER = re.compile(r"^\d+(\.\d+)*$")


def version_ge_14(s):
    """a numeric version (digits separated by dots) that is >= 1.4 section by section"""
    if not isinstance(s, str) or not _VER.match(s):
        return False
    parts = [int(p) for p in s.split(".")]
    ref = [1, 4]
    n = max(len(parts), len(ref))
    parts += [0] * (n - len(parts))
    ref += [0] * (n - len(ref))
    return parts >= ref


def comma_parts(s):
    return s.split(",")


def line_fields(data):
    return data.rstrip().split(";")


def no_semicolon_clean_end(p):
    return ";" not in p and p.rstrip() == p


def le16hex(*words):
    """hex text of the little-endian 16-bit encoding of the given words (each in 0..65535)"""
    import binascii
    import struct

    return binascii.hexlify(struct.pack(f"<{len(words)}H", *words)).decode("utf-8")


def hex_of(data):
    import binascii

    return binascii.hexlify(data).decode("utf-8")


def hex_words_ok(s, n):
    """s is exactly 4n hex digits (n little-endian 16-bit words)"""
    return is_hex(s, 4 * n)


def hex_word(s, i):
    """word i of a well-formed hex request"""
    import binascii
    import struct

    b = binascii.unhexlify(s)
    return struct.unpack(f"<{len(b) // 2}H", b)[i]
