"""wire - the serial line format, from the statement of C02."""
from .prims import int_of, int_ok, line_fields, no_semicolon_clean_end


def decodable(data):
    """six ';'-separated fields after stripping trailing blanks, the first five integers"""
    parts = line_fields(data)
    return (
        len(parts) == 6
        and int_ok(parts[0])
        and int_ok(parts[1])
        and int_ok(parts[2])
        and int_ok(parts[3])
        and int_ok(parts[4])
    )


def carriable(payload):
    """what the wire can carry: no ';', no trailing blanks (line breaks at the end are blanks)"""
    return no_semicolon_clean_end(payload)


def canon(node, child, cmd, ack, sub, payload):
    return str(node) + ";" + str(child) + ";" + str(cmd) + ";" + str(ack) + ";" + str(sub) + ";" + payload + "\n"


def fields(data):
    """the six fields of a decodable line"""
    parts = line_fields(data)
    return (int_of(parts[0]), int_of(parts[1]), int_of(parts[2]), int_of(parts[3]), int_of(parts[4]), parts[5])


def addressed(line, n):
    """the line is a command for node n"""
    return decodable(line) and fields(line)[0] == n
