"""api.valid - the per-version MySensors serial API, written from the statement of C03.

A well-formed line (six fields, five integers) is *valid for version v* exactly when
  * node id in 0..255, ack in {0,1}, command in 0..4,
  * child id in 0..255; 255 only for presentation/internal/stream; required for
    internal/stream other than id request / id response,
  * the sub-type is defined for the command in v,
  * the payload satisfies the sub-type's rule.
Tables are mine (MySensors serial API 1.4 - 2.2), not read from the repository.  Everything is
written as boolean expressions (no statements) so that the same text serves as a formula inside
quantified invariants and as executable Python in replays; `version` is always a literal.
"""
from .prims import comma_parts, float_in, float_ok, int_of, int_ok, is_hex, version_ge_14

PRESENTATION, SET, REQ, INTERNAL, STREAM = 0, 1, 2, 3, 4

# highest defined sub-type per command and version (sub-types are 0..max, contiguous)
MAX_SUB = {
    "1.4": {PRESENTATION: 25, SET: 39, REQ: 39, INTERNAL: 14, STREAM: 5},
    "1.5": {PRESENTATION: 35, SET: 46, REQ: 46, INTERNAL: 17, STREAM: 5},
    "2.0": {PRESENTATION: 39, SET: 56, REQ: 56, INTERNAL: 28, STREAM: 5},
    "2.1": {PRESENTATION: 39, SET: 56, REQ: 56, INTERNAL: 28, STREAM: 5},
    "2.2": {PRESENTATION: 39, SET: 56, REQ: 56, INTERNAL: 33, STREAM: 5},
}
VERSIONS = ("1.4", "1.5", "2.0", "2.1", "2.2")

I_ID_REQUEST, I_ID_RESPONSE = 3, 4


def defined(version, cmd, sub):
    return 0 <= sub and (
        (cmd == PRESENTATION and sub <= MAX_SUB[version][PRESENTATION])
        or (cmd == SET and sub <= MAX_SUB[version][SET])
        or (cmd == REQ and sub <= MAX_SUB[version][REQ])
        or (cmd == INTERNAL and sub <= MAX_SUB[version][INTERNAL])
        or (cmd == STREAM and sub <= MAX_SUB[version][STREAM])
    )


def binary(p):
    return p == "0" or p == "1"


def percent(p):
    return int_ok(p) and 0 <= int_of(p) and int_of(p) <= 100


def int_range(p, lo, hi):
    return int_ok(p) and lo <= int_of(p) and int_of(p) <= hi


def position(p):
    return len(comma_parts(p)) == 3 and float_ok(comma_parts(p)[0]) and float_ok(comma_parts(p)[1]) and float_ok(comma_parts(p)[2])


def hvac_state(p):
    return p == "Off" or p == "HeatOn" or p == "CoolOn" or p == "AutoChangeOver"


def hvac_speed(p):
    return p == "Min" or p == "Normal" or p == "Max" or p == "Auto"


def payload_ok_set(version, sub, p):
    return (
        (not (sub == 2 or sub == 15 or sub == 16 or sub == 36) or binary(p))
        and (sub != 3 or percent(p))
        and (sub != 21 or hvac_state(p))
        and (sub != 22 or (binary(p) if version == "1.4" else hvac_speed(p)))
        and (sub != 23 or float_in(p, 0.0, 100.0))
        and (
            version == "1.4"
            or (
                (sub != 40 or is_hex(p, 6))
                and (sub != 41 or is_hex(p, 8))
                and (not (sub == 44 or sub == 45) or float_in(p, 0.0, 100.0))
                and (version == "1.5" or ((sub != 49 or position(p)) and (sub != 56 or float_in(p, -1.0, 1.0))))
            )
        )
    )


def payload_ok_internal(version, sub, p):
    return (
        (sub != 0 or percent(p))
        and (sub != 1 or p == "" or int_ok(p))
        and (not (sub == 3 or sub == 7 or sub == 13) or p == "")
        and (sub != 4 or int_range(p, 1, 254))
        and (sub != 5 or binary(p))
        and (sub != 6 or int_range(p, 0, 254) or p == "M" or p == "I")
        and (sub != 8 or int_range(p, 0, 254))
        and (
            version == "1.4"
            or version == "1.5"
            or (
                (not (sub == 18 or sub == 19 or sub == 20) or p == "")
                and (sub != 21 or int_range(p, 0, 254))
                and (not (sub == 22 or sub == 24 or sub == 25) or int_ok(p))
                and (version != "2.2" or not (sub == 30 or sub == 31 or sub == 32 or sub == 33) or int_ok(p))
            )
        )
    )


def payload_ok(version, cmd, sub, p):
    return (
        (cmd != PRESENTATION or not (sub == 17 or sub == 18) or version_ge_14(p))
        and (cmd != SET or payload_ok_set(version, sub, p))
        and (cmd != REQ or p == "")
        and (cmd != INTERNAL or payload_ok_internal(version, sub, p))
    )


def child_ok(cmd, sub, child):
    return (
        0 <= child
        and child <= 255
        and (child != 255 or cmd == PRESENTATION or cmd == INTERNAL or cmd == STREAM)
        and (
            not (cmd == INTERNAL or cmd == STREAM)
            or (cmd == INTERNAL and (sub == I_ID_REQUEST or sub == I_ID_RESPONSE))
            or child == 255
        )
    )


def valid(version, node, child, cmd, ack, sub, payload):
    return (
        0 <= node
        and node <= 255
        and (ack == 0 or ack == 1)
        and defined(version, cmd, sub)
        and child_ok(cmd, sub, child)
        and payload_ok(version, cmd, sub, payload)
    )
