"""api.valid - the per-version MySensors serial API, written from the statement of C03.

A well-formed line (six fields, five integers) is *valid for version v* exactly when
  * node id in 0..255, ack in {0,1}, command in 0..4,
  * child id in 0..255; 255 only for presentation/internal/stream; required for
    internal/stream other than id request / id response,
  * the sub-type is defined for the command in v,
  * the payload satisfies the sub-type's rule.
Tables are mine (MySensors serial API 1.4 - 2.2), not read from the repository.
"""
from .prims import comma_parts, float_in, float_ok, int_of, int_ok, is_hex, version_ge_14

PRESENTATION, SET, REQ, INTERNAL, STREAM = 0, 1, 2, 3, 4

# highest defined sub-type per command and version (sub-types are 0..max, contiguous)
MAX_SUB = {
    "1.4": {PRESENTATION: 25, SET: 39, REQ: 39, INTERNAL: 14, STREAM: 5},
    "1.5": {PRESENTATION: 35, SET: 46, REQ: 46, INTERNAL: 17, STREAM: 5},
    "2.0": {PRESENTATION: 39, SET: 56, REQ: 56, INTERNAL: 28, STREAM: 5},
    "2.1": {PRESENTATION: 39, SET: 56, REQ: 56, INTERNAL: 28, STREAM: 5},
    "2.2": {PRESENTATION: 39, SET: 56, REQ: 56, INTERNAL: 33, STREAM: 5},
}
VERSIONS = ("1.4", "1.5", "2.0", "2.1", "2.2")

I_ID_REQUEST, I_ID_RESPONSE = 3, 4


def defined(version, cmd, sub):
    if cmd < 0 or cmd > 4:
        return False
    return 0 <= sub and sub <= MAX_SUB[version][cmd]


def binary(p):
    return p == "0" or p == "1"


def percent(p):
    return int_ok(p) and 0 <= int_of(p) and int_of(p) <= 100


def int_range(p, lo, hi):
    return int_ok(p) and lo <= int_of(p) and int_of(p) <= hi


def position(p):
    parts = comma_parts(p)
    return len(parts) == 3 and float_ok(parts[0]) and float_ok(parts[1]) and float_ok(parts[2])


def payload_ok_set(version, sub, p):
    if sub == 2 or sub == 15 or sub == 16 or sub == 36:
        return binary(p)
    if sub == 3:
        return percent(p)
    if sub == 21:
        return p == "Off" or p == "HeatOn" or p == "CoolOn" or p == "AutoChangeOver"
    if sub == 22:
        if version == "1.4":
            return binary(p)
        return p == "Min" or p == "Normal" or p == "Max" or p == "Auto"
    if sub == 23:
        return float_in(p, 0.0, 100.0)
    if version != "1.4":
        if sub == 40:
            return is_hex(p, 6)
        if sub == 41:
            return is_hex(p, 8)
        if sub == 44 or sub == 45:
            return float_in(p, 0.0, 100.0)
        if version != "1.5":
            if sub == 49:
                return position(p)
            if sub == 56:
                return float_in(p, -1.0, 1.0)
    return True


def payload_ok_internal(version, sub, p):
    if sub == 0:
        return percent(p)
    if sub == 1:
        return p == "" or int_ok(p)
    if sub == 3 or sub == 7 or sub == 13:
        return p == ""
    if sub == 4:
        return int_range(p, 1, 254)
    if sub == 5:
        return binary(p)
    if sub == 6:
        return int_range(p, 0, 254) or p == "M" or p == "I"
    if sub == 8:
        return int_range(p, 0, 254)
    if version != "1.4" and version != "1.5":
        if sub == 18 or sub == 19 or sub == 20:
            return p == ""
        if sub == 21:
            return int_range(p, 0, 254)
        if sub == 22 or sub == 24 or sub == 25:
            return int_ok(p)
        if version == "2.2":
            if sub == 30 or sub == 31 or sub == 32 or sub == 33:
                return int_ok(p)
    return True


def payload_ok(version, cmd, sub, p):
    if cmd == PRESENTATION:
        if sub == 17 or sub == 18:
            return version_ge_14(p)
        return True
    if cmd == SET:
        return payload_ok_set(version, sub, p)
    if cmd == REQ:
        return p == ""
    if cmd == INTERNAL:
        return payload_ok_internal(version, sub, p)
    return True


def child_ok(cmd, sub, child):
    if child < 0 or child > 255:
        return False
    if child == 255 and not (cmd == PRESENTATION or cmd == INTERNAL or cmd == STREAM):
        return False
    if (cmd == INTERNAL or cmd == STREAM) and not (cmd == INTERNAL and (sub == I_ID_REQUEST or sub == I_ID_RESPONSE)):
        return child == 255
    return True


def valid(version, node, child, cmd, ack, sub, payload):
    if node < 0 or node > 255:
        return False
    if not (ack == 0 or ack == 1):
        return False
    if not defined(version, cmd, sub):
        return False
    if not child_ok(cmd, sub, child):
        return False
    return payload_ok(version, cmd, sub, payload)
