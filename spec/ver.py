"""ver.floor - the protocol version a version string selects (statement of C18): the highest supported
version not above it under numeric comparison, section by section; 1.4 if none or unusable."""

SUPPORTED = ((1, 4), (1, 5), (2, 0), (2, 1), (2, 2))
LABELS = ("1.4", "1.5", "2.0", "2.1", "2.2")


def ge(major, minor, patch, ref):
    """(major, minor, patch) >= (ref[0], ref[1], 0) numerically"""
    return major > ref[0] or (major == ref[0] and (minor > ref[1] or (minor == ref[1] and patch >= 0)))


def floor_index(major, minor, patch):
    """index into SUPPORTED of the selected version"""
    return (
        4
        if ge(major, minor, patch, SUPPORTED[4])
        else (3 if ge(major, minor, patch, SUPPORTED[3]) else (2 if ge(major, minor, patch, SUPPORTED[2]) else (1 if ge(major, minor, patch, SUPPORTED[1]) else 0)))
    )
