"""proto - the protocol meaning of one accepted inbound message (statements of C04, C05, C07, C08, C10).

Written from the property statements.  A *view* is the gateway's node/child/value tree; `g` below is any
object with `.sensors` (node id -> node with .children, .new_state, .queue, ...).  Functions here are
pure predicates / pure computations on the *old* view; the contracts compare them with what the code did.
"""
from . import api
from .prims import int_of, int_ok, version_ge_14

PRESENTATION, SET, REQ, INTERNAL, STREAM = 0, 1, 2, 3, 4
I_BATTERY_LEVEL, I_TIME, I_ID_REQUEST, I_ID_RESPONSE, I_CONFIG = 0, 1, 3, 4, 6
I_SKETCH_NAME, I_SKETCH_VERSION, I_REBOOT, I_GATEWAY_READY = 11, 12, 13, 14
I_PRESENTATION, I_DISCOVER, I_DISCOVER_RESPONSE, I_HEARTBEAT_RESPONSE = 19, 20, 21, 22
I_PRE_SLEEP_NOTIFICATION = 32
ST_FIRMWARE_CONFIG_REQUEST, ST_FIRMWARE_REQUEST = 0, 2


def v2(version):
    return version == "2.0" or version == "2.1" or version == "2.2"


def is_wakeup(version, cmd, sub):
    """the wake-up announcement of a smart-sleep node: heartbeat response in 2.0/2.1, pre-sleep notification in 2.2"""
    return cmd == INTERNAL and (
        ((version == "2.0" or version == "2.1") and sub == I_HEARTBEAT_RESPONSE)
        or (version == "2.2" and sub == I_PRE_SLEEP_NOTIFICATION)
    )


def sleeping(g, n):
    """the node has announced smart sleep and has children (pending desired-state entries exist)"""
    return n in g.sensors and bool(g.sensors[n].new_state)


def needs_node(cmd, c, sub, version):
    """message kinds that need a known node (their effect/reply depends on it)"""
    return (
        (cmd == PRESENTATION and c != 255)
        or cmd == SET
        or cmd == REQ
        or cmd == STREAM
        or (
            cmd == INTERNAL
            and (
                sub == I_BATTERY_LEVEL
                or sub == I_SKETCH_NAME
                or sub == I_SKETCH_VERSION
                or (v2(version) and (sub == I_HEARTBEAT_RESPONSE or sub == I_DISCOVER_RESPONSE))
                or (version == "2.2" and sub == I_PRE_SLEEP_NOTIFICATION)
            )
        )
    )


def needs_child(cmd):
    return cmd == SET or cmd == REQ


def unknown_target(g, version, n, c, cmd, sub):
    """the message needs a node or child the gateway does not know"""
    return (needs_node(cmd, c, sub, version) and n not in g.sensors) or (
        needs_child(cmd) and n in g.sensors and c not in g.sensors[n].children
    )


def version_or_fallback(p):
    """a presented protocol version: the text itself if it is a usable version >= 1.4, else '1.4'"""
    return p if version_ge_14(p) else "1.4"


def battery_or_fallback(p):
    return int_of(p) if (int_ok(p) and 0 <= int_of(p) and int_of(p) <= 100) else 0


def heartbeat_or_fallback(p):
    return int_of(p) if int_ok(p) else 0


def next_id(g):
    """the id an id request reserves: 1 for an empty network, else max(known)+1 if that is <= 254, else none.
    (Stated as a predicate on the result in the contracts: result in 1..254, not known before.)"""
    return None
