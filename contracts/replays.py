"""Native replay hooks: rebuild the counterexample on the real classes of /repo and run it."""
import re


def _z3str(s):
    """z3 string literal as printed in a model -> Python str (best effort)."""
    if s is None:
        return None
    s = s.strip()
    if s.startswith('"') and s.endswith('"'):
        s = s[1:-1]
    s = s.replace('""', '"')
    s = re.sub(r"\\u\{([0-9a-fA-F]+)\}", lambda m: chr(int(m.group(1), 16)), s)
    return s


def _int(model, prefix, default=0):
    for k, v in model.items():
        if k.startswith(prefix + "!"):
            try:
                return int(v)
            except ValueError:
                pass
    return default


def _str(model, prefix, default=""):
    for k, v in model.items():
        if k.startswith(prefix + "!"):
            return _z3str(v)
    return default


PAYLOAD_CORPUS = [
    "", "0", "1", "2", "-1", "100", "101", " 7 ", "+5", "1_0", "abc", "Off", "HeatOn", "Min", "Auto", "M", "I",
    "ffffff", "fffff", "gggggg", "ffffffff", "1.5", "nan", "inf", "-inf", "1e3", "100.0", "100.1", "-1.0", "1.0",
    "1,2,3", "1,2", "a,b,c", "1.4", "1.3", "2.0.0", "v1.4", "254", "255", "256", "0x10", "١٢",
]


def replay_validate(model, rec):
    from mysensors.message import Message
    import voluptuous as vol
    from spec import api

    m = re.search(r"\[cmd=(-?\d+),sub=(-?\d+),version=([\d.]+)\]", rec["name"])
    cmd, sub, version = int(m.group(1)), int(m.group(2)), m.group(3)
    node, child, ack = _int(model, "node_id"), _int(model, "child_id"), _int(model, "ack")
    cands = [_str(model, "payload")] + PAYLOAD_CORPUS
    for p in cands:
        msg = Message(node_id=node, child_id=child, type=cmd, ack=ack, sub_type=sub, payload=p)
        try:
            msg.validate(version)
            accepted, err = True, None
        except vol.Invalid as e:
            accepted, err = False, None
        except Exception as e:  # an internal error is itself a violation
            return True, f"Message({node};{child};{cmd};{ack};{sub};{p!r}).validate({version!r}) raised {type(e).__name__}: {e}"
        want = api.valid(version, node, child, cmd, ack, sub, p)
        if accepted != want:
            return True, (
                f"line {node};{child};{cmd};{ack};{sub};{p!r} under version {version}: "
                f"validate {'accepts' if accepted else 'rejects'}, the API spec says {'valid' if want else 'invalid'}"
            )
    return False, "model and payload corpus agree with the spec natively"


HOOKS = [
    (re.compile(r"^Message\.validate\["), replay_validate),
]


def find(rec):
    for rx, fn in HOOKS:
        if rx.search(rec["name"]):
            return fn
    return None
