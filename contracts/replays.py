"""Native replay hooks: rebuild the counterexample on the real classes of /repo and run it."""
import re


def _z3str(s):
    """z3 string literal as printed in a model -> Python str (best effort)."""
    if s is None:
        return None
    s = s.strip()
    if s.startswith('"') and s.endswith('"'):
        s = s[1:-1]
    s = s.replace('""', '"')
    s = re.sub(r"\\u\{([0-9a-fA-F]+)\}", lambda m: chr(int(m.group(1), 16)), s)
    return s


def _int(model, prefix, default=0):
    for k, v in model.items():
        if k.startswith(prefix + "!"):
            try:
                return int(v)
            except ValueError:
                pass
    return default


def _str(model, prefix, default=""):
    for k, v in model.items():
        if k.startswith(prefix + "!"):
            return _z3str(v)
    return default


PAYLOAD_CORPUS = [
    "", "0", "1", "2", "-1", "100", "101", " 7 ", "+5", "1_0", "abc", "Off", "HeatOn", "Min", "Auto", "M", "I",
    "ffffff", "fffff", "gggggg", "ffffffff", "1.5", "nan", "inf", "-inf", "1e3", "100.0", "100.1", "-1.0", "1.0",
    "1,2,3", "1,2", "a,b,c", "1.4", "1.3", "2.0.0", "v1.4", "254", "255", "256", "0x10", "١٢",
]


def replay_validate(model, rec):
    from mysensors.message import Message
    import voluptuous as vol
    from spec import api

    m = re.search(r"\[cmd=(-?\d+),sub=(-?\d+),version=([\d.]+)\]", rec["name"])
    cmd, sub, version = int(m.group(1)), int(m.group(2)), m.group(3)
    node, child, ack = _int(model, "node_id"), _int(model, "child_id"), _int(model, "ack")
    cands = [_str(model, "payload")] + PAYLOAD_CORPUS
    for p in cands:
        msg = Message(node_id=node, child_id=child, type=cmd, ack=ack, sub_type=sub, payload=p)
        try:
            msg.validate(version)
            accepted, err = True, None
        except vol.Invalid as e:
            accepted, err = False, None
        except Exception as e:  # an internal error is itself a violation
            return True, f"Message({node};{child};{cmd};{ack};{sub};{p!r}).validate({version!r}) raised {type(e).__name__}: {e}"
        want = api.valid(version, node, child, cmd, ack, sub, p)
        if accepted != want:
            return True, (
                f"line {node};{child};{cmd};{ack};{sub};{p!r} under version {version}: "
                f"validate {'accepts' if accepted else 'rejects'}, the API spec says {'valid' if want else 'invalid'}"
            )
    return False, "model and payload corpus agree with the spec natively"


HOOKS = [
    (re.compile(r"^Message\.validate\["), replay_validate),
]


def find(rec):
    for rx, fn in HOOKS:
        if rx.search(rec["name"]):
            return fn
    return None


# ------------------------------------------------------------------------------------------- Gateway.logic
def _gateways(version):
    """real gateways in a few characteristic states (each a history of accepted lines / controller calls)"""
    from unittest import mock

    import mysensors

    def mk():
        gw = mysensors.Gateway(event_callback=None, protocol_version=version)
        gw.tasks = mysensors.task.SyncTasks(gw.const, False, "x.json", gw.sensors, mock.MagicMock())
        return gw

    hist = {
        "empty": [],
        "node": ["1;255;0;0;17;2.0"],
        "node+child": ["1;255;0;0;17;2.0", "1;0;0;0;3;lamp", "1;0;1;0;2;1"],
        "sleeping": ["1;255;0;0;17;2.0", "1;0;0;0;3;lamp", "1;0;1;0;2;1", "1;255;3;0;22;10", "1;255;3;0;32;500"],
        "sleeping+late-child": ["1;255;0;0;17;2.0", "1;0;0;0;3;lamp", "1;255;3;0;22;10", "1;255;3;0;32;500", "1;1;0;0;3;late"],
        "old-node-sleeping": ["1;255;0;0;17;1.4", "1;0;0;0;14;heater", "1;0;1;0;22;1", "1;255;3;0;22;10", "1;255;3;0;32;500"],
    }
    out = []
    for name, lines in hist.items():
        gw = mk()
        ok = True
        for ln in lines:
            try:
                gw.logic(ln + "\n")
            except Exception:  # the history itself trips the defect: still a usable state
                pass
        out.append((name, lines, gw))
        if name in ("node+child", "sleeping"):
            gw2 = mk()
            for ln in lines:
                try:
                    gw2.logic(ln + "\n")
                except Exception:
                    pass
            try:
                gw2.tasks.ota.make_update(1, 1, 1, b"\x01" * 40)
            except Exception:
                pass
            out.append((name + "+ota", lines + ["update_fw(1,1,1,<40 bytes>)"], gw2))
    return out


LINE_PAYLOADS = ["", "0", "1", "abc", "zz", "0100", "010001000000", "0100010000000000ffff0000", "2.0", "-1", "100", "nan", "ffffff", "1,2,3"]


def replay_logic_raises(model, rec):
    import logging

    logging.disable(logging.CRITICAL)
    m = re.search(r"version=([\d.]+)", rec["name"])
    version = m.group(1) if m else "2.0"
    cm = re.search(r"cmd=(-?\d+)", rec["name"])
    cmds = [int(cm.group(1))] if cm and int(cm.group(1)) >= 0 else [0, 1, 2, 3, 4]
    from mysensors.const import get_const

    const = get_const(version)
    for name, hist, gw in _gateways(version):
        for cmd in cmds:
            subs = [int(s) for s in const.VALID_MESSAGE_TYPES.get(cmd, [])]
            for node in (1, 2, 255):
                for child in (0, 1, 255):
                    for sub in subs:
                        for p in LINE_PAYLOADS:
                            line = f"{node};{child};{cmd};0;{sub};{p}\n"
                            try:
                                gw.logic(line)
                            except Exception as e:  # noqa: BLE001
                                return True, f"history {hist} then line {line!r} (version {version}): {type(e).__name__}: {e}"
    return False, "no escaping exception on the history/line corpus"


def replay_next_id(model, rec):
    import random

    import mysensors

    rnd = random.Random(1)
    for _ in range(3000):
        gw = mysensors.Gateway()
        ids = set(rnd.sample(range(0, 256), rnd.randint(0, 6)))
        if rnd.random() < 0.3:
            ids |= {rnd.choice([253, 254, 255])}
        for i in ids:
            gw.sensors[i] = mysensors.Sensor(i)
        r = gw._get_next_id()
        if r is not None and not (1 <= r <= 254 and r not in ids):
            return True, f"known nodes {sorted(ids)}: _get_next_id() = {r}"
    return False, "random node sets agree"


def replay_codec(model, rec):
    from mysensors.message import Message

    for p in ["", "a", "a b", "é", "1.5", "x" * 30]:
        for f in [(0, 0, 0, 0, 0), (255, 255, 4, 1, 56), (-3, 999, 7, 2, -1)]:
            m = Message(node_id=f[0], child_id=f[1], type=f[2], ack=f[3], sub_type=f[4], payload=p)
            enc = m.encode()
            want = ";".join(str(x) for x in f) + ";" + p + "\n"
            if enc != want:
                return True, f"Message{f + (p,)}.encode() = {enc!r}, canonical line is {want!r}"
            d = Message(enc)
            got = (d.node_id, d.child_id, d.type, d.ack, d.sub_type, d.payload)
            if got != f + (p,):
                return True, f"decode(encode({f + (p,)})) = {got}"
            c = m.copy(ack=1)
            if (c.node_id, c.child_id, c.type, c.ack, c.sub_type, c.payload) != (f[0], f[1], f[2], 1, f[4], p):
                return True, f"copy(ack=1) of {f + (p,)} gave {c!r}"
    return False, "codec corpus agrees"


def replay_prepare_fw(model, rec):
    import random

    from mysensors.ota import compute_crc, prepare_fw

    rnd = random.Random(2)
    for ln in [1, 15, 16, 17, 127, 128, 129, 255, 256, 300, 1000]:
        img = bytes(rnd.getrandbits(8) for _ in range(ln))
        fw = prepare_fw(img)
        pad = 128 - ln % 128
        if fw["data"] != img + b"\xff" * pad or fw["blocks"] * 16 != len(fw["data"]) or fw["crc"] != compute_crc(fw["data"]):
            return True, f"prepare_fw of a {ln}-byte image: data/blocks/crc do not match the padded image"
    return False, "padding corpus agrees"


def replay_mqtt(model, rec):
    from unittest import mock

    from mysensors.gateway_mqtt import MQTTGateway

    prefixes = ["", "a", "a/b", "1", "1/1/1/1/1", "0/0", "x-1/2"]
    for pre in prefixes:
        gw = MQTTGateway(mock.MagicMock(), mock.MagicMock(), in_prefix=pre)
        for line in ["1;2;1;0;3;55\n", "1;1;1;1;1;1\n", "255;255;3;0;3;\n", "0;0;0;0;0;a b\n"]:
            topic, payload, qos = gw.parse_message_to_mqtt(line)
            back = gw.parse_mqtt_to_message(pre + topic, payload, qos)
            if back is None or back + "\n" != line:
                return True, f"in_prefix {pre!r}: {line!r} published as {topic!r} comes back as {back!r}"
        for bad in ["1/2/3/0/4", pre + "x/1/2/3/0/4", pre + "/1/2/3/0"]:
            if bad.startswith(pre + "/") and len(bad[len(pre) + 1 :].split("/")) == 5 and "/" not in "".join(bad[len(pre) + 1 :].split("/")):
                continue
            if gw.parse_mqtt_to_message(bad, "p", 0) is not None:
                return True, f"in_prefix {pre!r}: topic {bad!r} accepted"
    return False, "topic corpus agrees"


def replay_config(model, rec):
    import mysensors.mysensors as M
    from unittest import mock

    try:
        M.SerialGateway("/dev/ttyX", timeout=2.0, reconnect_timeout=3.0, persistence=False)
        M.TCPGateway("127.0.0.1", port=5003, timeout=2.0, reconnect_timeout=3.0)
        M.AsyncSerialGateway("/dev/ttyX", timeout=2.0)
        M.AsyncTCPGateway("127.0.0.1", reconnect_timeout=3.0)
        M.MQTTGateway(mock.MagicMock(), mock.MagicMock(), in_prefix="a", out_prefix="b", retain=False)
    except TypeError as e:
        return True, f"documented options rejected: {e}"
    from mysensors.const import get_const

    for v, want in (("2.0.0", "20"), ("2.0.5", "20"), ("2.3", "22"), ("2.2.0", "22"), ("1.5.1", "15"), ("1.3", "14")):
        got = get_const(v).__name__[-2:]
        if got != want:
            return True, f"get_const({v!r}) selects const_{got}, expected const_{want}"
    return False, "constructor / version corpus agrees"


HOOKS += [
    (re.compile(r"^Gateway\.logic\[.*\]\.raises"), replay_logic_raises),
    (re.compile(r"_get_next_id|add_sensor"), replay_next_id),
    (re.compile(r"^Message\.(encode|decode|copy)|^L1\.|^L2\."), replay_codec),
    (re.compile(r"^prepare_fw"), replay_prepare_fw),
    (re.compile(r"parse_mqtt_to_message|parse_message_to_mqtt|publish-then-receive"), replay_mqtt),
    (re.compile(r"^constructors|^get_const"), replay_config),
]
