"""Native replay hooks: rebuild the counterexample on the real classes of /repo and run it."""
import re


def _z3str(s):
    """z3 string literal as printed in a model -> Python str (best effort)."""
    if s is None:
        return None
    s = s.strip()
    if s.startswith('"') and s.endswith('"'):
        s = s[1:-1]
    s = s.replace('""', '"')
    s = re.sub(r"\\u\{([0-9a-fA-F]+)\}", lambda m: chr(int(m.group(1), 16)), s)
    return s


def _int(model, prefix, default=0):
    for k, v in model.items():
        if k.startswith(prefix + "!"):
            try:
                return int(v)
            except ValueError:
                pass
    return default


def _str(model, prefix, default=""):
    for k, v in model.items():
        if k.startswith(prefix + "!"):
            return _z3str(v)
    return default


PAYLOAD_CORPUS = [
    "", "0", "1", "2", "-1", "100", "101", " 7 ", "+5", "1_0", "abc", "Off", "HeatOn", "Min", "Auto", "M", "I",
    "ffffff", "fffff", "gggggg", "ffffffff", "1.5", "nan", "inf", "-inf", "1e3", "100.0", "100.1", "-1.0", "1.0",
    "1,2,3", "1,2", "a,b,c", "1.4", "1.3", "2.0.0", "v1.4", "254", "255", "256", "0x10", "١٢",
    # right length, blanks or signs where hex digits belong (decoders differ in what they skip)
    "ff  ff", " ff ff", "ff ff ", "ff\tff\t", "      ", "FFFFFF", "ff ff ff", "ffff  ff", " ffffff ", "        ", "0xffff", "+fffff", "ff_fff", "ｆｆｆｆｆｆ",
]


def replay_validate(model, rec):
    from mysensors.message import Message
    import voluptuous as vol
    from spec import api

    m = re.search(r"\[cmd=(-?\d+),sub=(-?\d+),version=([\d.]+)\]", rec["name"])
    cmd, sub, version = int(m.group(1)), int(m.group(2)), m.group(3)
    node, child, ack = _int(model, "node_id"), _int(model, "child_id"), _int(model, "ack")
    cands = [_str(model, "payload")] + PAYLOAD_CORPUS
    for p in cands:
        msg = Message(node_id=node, child_id=child, type=cmd, ack=ack, sub_type=sub, payload=p)
        try:
            msg.validate(version)
            accepted, err = True, None
        except vol.Invalid as e:
            accepted, err = False, None
        except Exception as e:  # an internal error is itself a violation
            return True, f"Message({node};{child};{cmd};{ack};{sub};{p!r}).validate({version!r}) raised {type(e).__name__}: {e}"
        want = api.valid(version, node, child, cmd, ack, sub, p)
        if accepted != want:
            return True, (
                f"line {node};{child};{cmd};{ack};{sub};{p!r} under version {version}: "
                f"validate {'accepts' if accepted else 'rejects'}, the API spec says {'valid' if want else 'invalid'}"
            )
    return False, "model and payload corpus agree with the spec natively"


def replay_validate_history(model, rec):
    """validate() writes module-level state: look for a pair of messages where the verdict on the second
    depends on the first having been validated before (each pair starts from a freshly loaded module)"""
    import importlib
    import sys

    import voluptuous as vol
    from spec import api

    m = re.search(r"\[cmd=(-?\d+),sub=(-?\d+),version=([\d.]+)\]", rec["name"])
    cmd0, sub0, version = int(m.group(1)), int(m.group(2)), m.group(3)
    cells = [(n, c, a, p) for n in (1, 255) for c in (0, 255, 254) for a in (0, 1) for p in ("", "1", "20.0", "abc", "ffffff", "1.4")]
    mod = sys.modules["mysensors.message"]
    kinds = [(cmd0, sub0)] + [(c_, s_) for c_ in (1, 2, 0, 3, 4) for s_ in (0, 2, 6)]
    try:
        for cmd, sub, first in [(c_, s_, f_) for c_, s_ in kinds for f_ in cells]:
            mod = importlib.reload(mod)
            n, c, a, p = first
            try:
                mod.Message(node_id=n, child_id=c, type=cmd, ack=a, sub_type=sub, payload=p).validate(version)
            except Exception:  # noqa: BLE001 - only the state it leaves behind matters
                pass
            for n2, c2, a2, p2 in cells:
                try:
                    mod.Message(node_id=n2, child_id=c2, type=cmd, ack=a2, sub_type=sub, payload=p2).validate(version)
                    accepted = True
                except vol.Invalid:
                    accepted = False
                want = api.valid(version, n2, c2, cmd, a2, sub, p2)
                if accepted != want:
                    return True, (
                        f"version {version}: after validating {n};{c};{cmd};{a};{sub};{p!r}, the line {n2};{c2};{cmd};{a2};{sub};{p2!r} is "
                        f"{'accepted' if accepted else 'rejected'}; the API spec (and a fresh process) says {'valid' if want else 'invalid'}"
                    )
    finally:
        importlib.reload(mod)
    return False, "no pair of messages in the corpus gets a verdict that depends on the earlier call"


HOOKS = [
    (re.compile(r"^Message\.validate\[.*frame\.module-state"), replay_validate_history),
    (re.compile(r"^Message\.validate\["), replay_validate),
]


def find(rec):
    for rx, fn in HOOKS:
        if rx.search(rec["name"]):
            return fn
    return None


# ------------------------------------------------------------------------------------------- Gateway.logic
def _gateways(version):
    """real gateways in a few characteristic states (each a history of accepted lines / controller calls)"""
    from unittest import mock

    import mysensors

    def mk():
        gw = mysensors.Gateway(event_callback=None, protocol_version=version)
        gw.tasks = mysensors.task.SyncTasks(gw.const, False, "x.json", gw.sensors, mock.MagicMock())
        return gw

    hist = {
        "empty": [],
        "node": ["1;255;0;0;17;2.0"],
        "node+child": ["1;255;0;0;17;2.0", "1;0;0;0;3;lamp", "1;0;1;0;2;1"],
        "sleeping": ["1;255;0;0;17;2.0", "1;0;0;0;3;lamp", "1;0;1;0;2;1", "1;255;3;0;22;10", "1;255;3;0;32;500"],
        "sleeping+late-child": ["1;255;0;0;17;2.0", "1;0;0;0;3;lamp", "1;255;3;0;22;10", "1;255;3;0;32;500", "1;1;0;0;3;late"],
        "old-node-sleeping": ["1;255;0;0;17;1.4", "1;0;0;0;14;heater", "1;0;1;0;22;1", "1;255;3;0;22;10", "1;255;3;0;32;500"],
    }
    out = []
    for name, lines in hist.items():
        gw = mk()
        ok = True
        for ln in lines:
            try:
                gw.logic(ln + "\n")
            except Exception:  # the history itself trips the defect: still a usable state
                pass
        out.append((name, lines, gw))
        if name in ("node+child", "sleeping"):
            gw2 = mk()
            for ln in lines:
                try:
                    gw2.logic(ln + "\n")
                except Exception:
                    pass
            try:
                gw2.tasks.ota.make_update(1, 1, 1, b"\x01" * 40)
            except Exception:
                pass
            out.append((name + "+ota", lines + ["update_fw(1,1,1,<40 bytes>)"], gw2))
    return out


LINE_PAYLOADS = ["", "0", "1", "abc", "zz", "0100", "010001000000", "0100010000000000ffff0000", "2.0", "-1", "100", "nan", "ffffff", "1,2,3"]


def replay_logic_raises(model, rec):
    import logging

    logging.disable(logging.CRITICAL)
    m = re.search(r"version=([\d.]+)", rec["name"])
    version = m.group(1) if m else "2.0"
    cm = re.search(r"cmd=(-?\d+)", rec["name"])
    cmds = [int(cm.group(1))] if cm and int(cm.group(1)) >= 0 else [0, 1, 2, 3, 4]
    from mysensors.const import get_const

    const = get_const(version)
    for name, hist, gw in _gateways(version):
        for cmd in cmds:
            subs = [int(s) for s in const.VALID_MESSAGE_TYPES.get(cmd, [])]
            for node in (1, 2, 255):
                for child in (0, 1, 255):
                    for sub in subs:
                        for p in LINE_PAYLOADS:
                            line = f"{node};{child};{cmd};0;{sub};{p}\n"
                            try:
                                gw.logic(line)
                            except Exception as e:  # noqa: BLE001
                                return True, f"history {hist} then line {line!r} (version {version}): {type(e).__name__}: {e}"
    return False, "no escaping exception on the history/line corpus"


def replay_next_id(model, rec):
    import random

    import mysensors

    rnd = random.Random(1)
    for _ in range(3000):
        gw = mysensors.Gateway()
        ids = set(rnd.sample(range(0, 256), rnd.randint(0, 6)))
        if rnd.random() < 0.3:
            ids |= {rnd.choice([253, 254, 255])}
        order = list(ids)
        rnd.shuffle(order)  # the order in which nodes became known must not matter
        for i in order:
            gw.sensors[i] = mysensors.Sensor(i)
        r = gw._get_next_id()
        if r is not None and not (1 <= r <= 254 and r not in ids):
            return True, f"nodes became known in the order {order}: _get_next_id() = {r}"
    # histories of presentations (any order of ids) and id requests through logic: every id handed out is fresh
    from unittest import mock

    for _ in range(300):
        gw = mysensors.Gateway(protocol_version="2.0")
        gw.tasks = mysensors.task.SyncTasks(gw.const, False, "x.json", gw.sensors, mock.MagicMock())
        handed, hist = set(), []
        for _step in range(rnd.randint(2, 8)):
            if rnd.random() < 0.5:
                n = rnd.choice([0, 1, 2, 5, 6, 7, 9, 10, 11, 200, 253, 254])
                hist.append(f"present {n}")
                gw.logic(f"{n};255;0;0;17;2.0\n")
            else:
                known = set(gw.sensors)
                r = gw.logic("255;255;3;0;3;\n")
                hist.append("id request")
                if r is not None:
                    got = int(r.rstrip().split(";")[5])
                    if not (1 <= got <= 254) or got in known or got in handed:
                        return True, f"history {hist}: the id response carries {got}; known nodes {sorted(known)}, handed out before {sorted(handed)}"
                    handed.add(got)
    return False, "random node sets and histories agree"


def replay_codec(model, rec):
    from mysensors.message import Message

    for p in ["", "a", "a b", "é", "1.5", "x" * 30, "  padded", "\tx y", "\xa0ok", " "[:0] + " 7"]:
        for f in [(0, 0, 0, 0, 0), (255, 255, 4, 1, 56), (-3, 999, 7, 2, -1)]:
            m = Message(node_id=f[0], child_id=f[1], type=f[2], ack=f[3], sub_type=f[4], payload=p)
            enc = m.encode()
            want = ";".join(str(x) for x in f) + ";" + p + "\n"
            if enc != want:
                return True, f"Message{f + (p,)}.encode() = {enc!r}, canonical line is {want!r}"
            d = Message(enc)
            got = (d.node_id, d.child_id, d.type, d.ack, d.sub_type, d.payload)
            if got != f + (p,):
                return True, f"decode(encode({f + (p,)})) = {got}"
            c = m.copy(ack=1)
            if (c.node_id, c.child_id, c.type, c.ack, c.sub_type, c.payload) != (f[0], f[1], f[2], 1, f[4], p):
                return True, f"copy(ack=1) of {f + (p,)} gave {c!r}"
    return False, "codec corpus agrees"


def replay_prepare_fw(model, rec):
    import random

    from mysensors.ota import compute_crc, prepare_fw

    rnd = random.Random(2)
    for ln in [1, 15, 16, 17, 127, 128, 129, 255, 256, 300, 1000]:
        img = bytes(rnd.getrandbits(8) for _ in range(ln))
        fw = prepare_fw(img)
        pad = len(fw["data"]) - ln
        if not (0 <= pad <= 128) or len(fw["data"]) % 128 or fw["data"] != img + b"\xff" * pad or fw["blocks"] * 16 != len(fw["data"]) or fw["crc"] != compute_crc(fw["data"]):
            return True, f"prepare_fw of a {ln}-byte image: data/blocks/crc do not match the padded image"
    return False, "padding corpus agrees"


def replay_mqtt(model, rec):
    from unittest import mock

    from mysensors.gateway_mqtt import MQTTGateway

    prefixes = ["", "a", "a/b", "1", "1/1/1/1/1", "0/0", "x-1/2"]
    for pre in prefixes:
        gw = MQTTGateway(mock.MagicMock(), mock.MagicMock(), in_prefix=pre)
        for line in ["1;2;1;0;3;55\n", "1;1;1;1;1;1\n", "255;255;3;0;3;\n", "0;0;0;0;0;a b\n", "1;1;1;0;47;28/09/2026\n", "1;255;3;0;11;a/b\n", "1;1;1;0;47;/\n"]:
            topic, payload, qos = gw.parse_message_to_mqtt(line)
            want_topic, want_payload = "/" + "/".join(line.rstrip("\n").split(";")[:5]), line.rstrip("\n").split(";")[5]
            if (topic, payload) != (want_topic, want_payload):
                return True, f"in_prefix {pre!r}: {line!r} is published as topic {topic!r} payload {payload!r}; prescribed {want_topic!r}, {want_payload!r}"
            back = gw.parse_mqtt_to_message(pre + topic, payload, qos)
            if back is None or back + "\n" != line:
                return True, f"in_prefix {pre!r}: {line!r} published as {topic!r} comes back as {back!r}"
            # the ack flag of a received command is decided by the delivery QoS alone (a broker may deliver below
            # the published QoS; the subscriptions ask for QoS 0)
            for q in (0, 1, 2):
                got = gw.parse_mqtt_to_message(pre + topic, payload, q)
                f = line.rstrip("\n").split(";")
                want = ";".join(f[:3] + ["1" if q else "0"] + f[4:])
                if got != want:
                    return True, f"in_prefix {pre!r}: topic {pre + topic!r} delivered at QoS {q!r} is received as {got!r}; QoS > 0 exactly when ack = 1 prescribes {want!r}"
        for bad in ["1/2/3/0/4", pre + "x/1/2/3/0/4", pre + "/1/2/3/0"]:
            if bad.startswith(pre + "/") and len(bad[len(pre) + 1 :].split("/")) == 5 and "/" not in "".join(bad[len(pre) + 1 :].split("/")):
                continue
            if gw.parse_mqtt_to_message(bad, "p", 0) is not None:
                return True, f"in_prefix {pre!r}: topic {bad!r} accepted"
    return False, "topic corpus agrees"


def replay_config(model, rec):
    import mysensors.mysensors as M
    from unittest import mock

    try:
        M.SerialGateway("/dev/ttyX", timeout=2.0, reconnect_timeout=3.0, persistence=False)
        M.TCPGateway("127.0.0.1", port=5003, timeout=2.0, reconnect_timeout=3.0)
        M.AsyncSerialGateway("/dev/ttyX", timeout=2.0)
        M.AsyncTCPGateway("127.0.0.1", reconnect_timeout=3.0)
        M.MQTTGateway(mock.MagicMock(), mock.MagicMock(), in_prefix="a", out_prefix="b", retain=False)
    except TypeError as e:
        return True, f"documented options rejected: {e}"
    from mysensors.const import get_const

    sup = [((1, 4), "14"), ((1, 5), "15"), ((2, 0), "20"), ((2, 1), "21"), ((2, 2), "22")]
    for M in range(0, 4):
        for m in range(0, 13):
            for p in (None, 0, 1, 2, 3):
                v = f"{M}.{m}" + ("" if p is None else f".{p}")
                want = "14"
                for (a, b), lab in sup:
                    if (M, m, p or 0) >= (a, b, 0):
                        want = lab
                got = get_const(v).__name__[-2:]
                if got != want:
                    return True, f"get_const({v!r}) selects const_{got}, the numeric floor is const_{want}"
    return False, "constructor / version corpus agrees"


HOOKS += [
    (re.compile(r"^Gateway\.logic\[.*\]\.raises"), replay_logic_raises),
    (re.compile(r"_get_next_id|add_sensor"), replay_next_id),
    (re.compile(r"^Message\.(encode|decode|copy)|^L1\.|^L2\."), replay_codec),
    (re.compile(r"^prepare_fw"), replay_prepare_fw),
    (re.compile(r"parse_mqtt_to_message|parse_message_to_mqtt|publish-then-receive"), replay_mqtt),
    (re.compile(r"^constructors|^get_const"), replay_config),
]


def replay_watchdog(model, rec):
    """threaded TCP gateway on a simulated clock: every probe is answered within reconnect_timeout, yet
    an iteration that falls just before the second answer drops the link"""
    from unittest import mock

    from mysensors.gateway_tcp import TCPGateway

    now = [0.0]
    with mock.patch("time.time", lambda: now[0]):
        gw = TCPGateway("127.0.0.1", reconnect_timeout=10.0)
        gw.tasks.add_job = lambda *a: None
        gw.tcp_check_timer = gw.tcp_disconnect_timer = 0.0
        timeline = [("check", 10.02), ("answer", 10.02), ("check", 20.04), ("check", 30.03), ("answer", 30.04)]
        for what, t in timeline:
            now[0] = t
            try:
                if what == "check":
                    gw.check_connection()
                else:
                    gw._handle_i_version(None)
            except OSError as e:
                return True, (
                    "reconnect_timeout 10 s, connect at 0: probe at 10.02 answered at 10.02, probe at 20.04 answered at 30.04 "
                    f"(both within 10 s); the loop iteration at {t} raises OSError('{e}') and drops the link"
                )
    return False, "the timeline did not drop the link"


HOOKS += [(re.compile(r"^watchdog\."), replay_watchdog)]


# ------------------------------------------------------------------------------------------- further native replays
def replay_reconnect(model, rec):
    """lose the connection several times on a real transport; every loss must start one reconnect"""
    import asyncio
    import threading
    from unittest import mock

    from mysensors import transport as TR

    ran = []
    if "async" in rec["name"]:
        async def connect(tr):
            ran.append(tr)

        async def scenario():
            tr = TR.AsyncTransport(mock.MagicMock(), connect)
            for n in range(1, 4):
                tr.protocol.conn_lost_callback()
                await asyncio.sleep(0)
                await asyncio.sleep(0)
                if len(ran) != n:
                    return True, f"asyncio transport: loss #{n} started {len(ran) - (n - 1)} reconnects (connect ran {len(ran)} times after {n} losses)"
            # a second loss in the very loop iteration in which the first reconnect has finished but its
            # done-callbacks have not run yet: the reconnect that stop() can find must be the second one
            ran.clear()
            tr = TR.AsyncTransport(mock.MagicMock(), connect)
            tr.protocol.conn_lost_callback()
            await asyncio.sleep(0)  # the first reconnect runs to its end; its done-callbacks are still queued
            tr.protocol.conn_lost_callback()
            second = tr.connect_task
            for _ in range(3):
                await asyncio.sleep(0)
            if tr.connect_task is not second:
                return True, (
                    "asyncio transport: a second loss right after the first reconnect completed; afterwards transport.connect_task is "
                    f"{tr.connect_task!r} and no longer the reconnect task of the second loss - stop() cannot cancel that one"
                )
            return False, "three losses, three reconnects; the latest reconnect stays tracked"

        return asyncio.run(scenario())
    started = []
    with mock.patch.object(threading.Thread, "start", lambda self: started.append(self)):
        tr = TR.SyncTransport(mock.MagicMock(), lambda t: ran.append(t))
        for n in range(1, 4):
            tr.protocol.conn_lost_callback()
            if len(started) != n:
                return True, f"threaded transport: loss #{n} started {len(started) - (n - 1)} reconnect threads"
    return False, "three losses, three reconnect threads"


def _network():
    from mysensors.sensor import ChildSensor, Sensor

    s = Sensor(7)
    s.type, s.sketch_name, s.sketch_version, s.battery_level, s.protocol_version, s.heartbeat = 17, "sketch é", "1.0", 55, "2.0", 3
    s.children[1] = ChildSensor(1, 6, "temp é")
    s.children[1].values[0] = "20.5"
    s.children[254] = ChildSensor(254, 3)
    bare = Sensor(9)
    return {7: s, 9: bare}


def _view(sensors):
    return {
        n: (
            s.sensor_id, s.type, s.sketch_name, s.sketch_version, s.battery_level, s.protocol_version, s.heartbeat,
            {c: (ch.id, ch.type, ch.description, dict(ch.values)) for c, ch in s.children.items()},
        )
        for n, s in sensors.items()
    }


def replay_roundtrip(model, rec):
    """save with the real persistence code in both formats, with pending transient state; load into a fresh
    network: the persistent view must be identical and the transient state reset"""
    import os
    import tempfile
    from collections import deque

    from mysensors.persistence import Persistence
    from mysensors.sensor import ChildSensor

    for ext in ("json", "pickle"):
        with tempfile.TemporaryDirectory() as d:
            path = os.path.join(d, "net." + ext)
            net = _network()
            net[7].new_state[1] = ChildSensor(1, 6, "temp é")
            net[7].new_state[1].values[0] = "21"
            net[7].queue.append("7;1;1;0;0;21\n")
            net[7].reboot = True
            want = _view(net)
            Persistence(net, mock_schedule, path).save_sensors()
            loaded = {}
            Persistence(loaded, mock_schedule, path).safe_load_sensors()
            if _view(loaded) != want:
                return True, f"{ext}: the loaded network differs from the saved one: {_view(loaded)!r} != {want!r}"
            for n, s in loaded.items():
                if s.new_state != {} or s.queue != deque() or s.reboot is not False:
                    return True, f"{ext}: node {n} is loaded with transient state new_state={s.new_state!r} queue={list(s.queue)!r} reboot={s.reboot!r}"
            # a loaded node acquires transient state, the network is saved and loaded once more in this process
            loaded[7].new_state[1] = ChildSensor(1, 6, "x")
            loaded[7].queue.append("7;1;1;0;0;1\n")
            Persistence(loaded, mock_schedule, path).save_sensors()
            again = {}
            Persistence(again, mock_schedule, path).safe_load_sensors()
            for n, s in again.items():
                if s.new_state != {} or s.queue != deque():
                    return True, f"{ext}: after load, wake-up traffic on node 7, save and a second load in the same process, node {n} is loaded with new_state={s.new_state!r} queue={list(s.queue)!r} (containers shared between loaded nodes)"
    return False, "both formats round-trip the network and reset the transient state"


_MEMO = {}


def mock_schedule(*a, **k):
    return None


def replay_damaged_files(model, rec):
    """every truncation and a zero-fill of the main file and of the backup: loading never raises, an intact
    backup gives the backup's state, and nothing is partially merged"""
    import os
    import tempfile

    from mysensors.persistence import Persistence

    m = re.search(r"fmt=(json|pickle)", rec["name"])
    if m and ("damaged", m.group(1)) in _MEMO:
        return _MEMO[("damaged", m.group(1))]
    for ext in (m.group(1),) if m else ("json", "pickle"):
        _MEMO[("damaged", ext)] = (False, "no damaged main/backup combination raises or loads a partial network")
        with tempfile.TemporaryDirectory() as d:
            path = os.path.join(d, "net." + ext)
            net = _network()
            Persistence(net, mock_schedule, path).save_sensors()
            good = open(path, "rb").read()
            want = _view(net)
            damaged = [good[:k] for k in range(0, len(good))] + [b"\0" * len(good)]
            for which in ("main", "bak"):
                for bad in damaged:
                    for other in ("absent", "good", "damaged"):
                        for f in (path, path + ".bak"):
                            if os.path.exists(f):
                                os.remove(f)
                        a, b = (path, path + ".bak") if which == "main" else (path + ".bak", path)
                        open(a, "wb").write(bad)
                        if other != "absent":
                            open(b, "wb").write(good if other == "good" else good[: len(good) // 2])
                        loaded = {}
                        try:
                            Persistence(loaded, mock_schedule, path).safe_load_sensors()
                        except Exception as e:  # noqa: BLE001
                            _MEMO[("damaged", ext)] = True, f"{ext}: {which} file cut to {len(bad)} of {len(good)} bytes (other file {other}): safe_load_sensors raised {type(e).__name__}: {e}"
                            return True, f"{ext}: {which} file cut to {len(bad)} of {len(good)} bytes (other file {other}): safe_load_sensors raised {type(e).__name__}: {e}"
                        got = _view(loaded)
                        if got not in ({}, want):
                            return True, f"{ext}: {which} file cut to {len(bad)} bytes (other file {other}): partially loaded network {got!r}"
                        if other == "good" and got != want:
                            return True, f"{ext}: {which} file cut to {len(bad)} bytes and the other file intact: the intact file was not used"
    return False, "no damaged main/backup combination raises or loads a partial network"


def replay_schedule(model, rec):
    """a scheduled save that fails (I/O error, or the network changing under the serialiser) must leave the
    schedule armed"""
    import asyncio
    import threading
    from unittest import mock

    from mysensors import task as T

    for exc in (OSError(28, "No space left on device"), RuntimeError("dictionary changed size during iteration")):
        def save(exc=exc):
            raise exc

        if "schedule_save" in rec["name"]:
            tasks = T.SyncTasks.__new__(T.SyncTasks)
            tasks._cancel_save = None
            timers = []

            class FakeTimer:
                def __init__(self, delay, fn):
                    timers.append(self)

                def start(self):
                    pass

                def cancel(self):
                    pass

            with mock.patch.object(threading, "Timer", FakeTimer):
                tick = tasks._schedule_factory(save)
                try:
                    tick()
                except Exception as e:  # noqa: BLE001
                    if not timers:
                        return True, f"threaded schedule: a save failing with {type(exc).__name__} makes the tick raise {type(e).__name__}: {e}; no timer re-armed"
                if not timers:
                    return True, f"threaded schedule: after a save failing with {type(exc).__name__} no timer is armed"
        else:
            async def scenario(save=save):
                tasks = T.AsyncTasks.__new__(T.AsyncTasks)
                tasks._cancel_save = None
                sleeps = []

                async def fake_sleep(delay):
                    sleeps.append(delay)
                    if len(sleeps) >= 2:
                        raise asyncio.CancelledError()

                with mock.patch.object(asyncio, "sleep", fake_sleep):
                    sched = tasks._schedule_factory(save)
                    await sched()
                    pending = [t for t in asyncio.all_tasks() if t is not asyncio.current_task()]
                    for t in pending:
                        try:
                            await t
                        except asyncio.CancelledError:
                            pass
                        except Exception as e:  # noqa: BLE001
                            return True, f"asyncio schedule: a save failing with {type(exc).__name__} ends the save task with {type(e).__name__}: {e}"
                    if len(sleeps) < 2:
                        return True, f"asyncio schedule: the save loop stopped after a save failing with {type(exc).__name__}"
                return False, ""

            bad, why = asyncio.run(scenario())
            if bad:
                return True, why
    return False, "failing saves leave the schedule armed"


def replay_framing(model, rec):
    """feed the same byte stream in different chunkings to the real protocol class: the lines handed to
    gateway.logic must be those of the stream"""
    from unittest import mock

    from mysensors import transport as TR
    from mysensors.gateway_tcp import AsyncTCPMySensorsProtocol

    cls = {"AsyncMySensorsProtocol": TR.AsyncMySensorsProtocol, "AsyncTCPMySensorsProtocol": AsyncTCPMySensorsProtocol}.get(
        rec["name"].split(".")[0], TR.BaseMySensorsProtocol
    )
    streams = [
        b"1;1;1;0;0;20.0\n2;1;1;0;0;21\r\n",
        b"x" * 300 + b"1;1;1;0;0;99.9\n",
        "1;0;0;0;47;é\n".encode() * 3,
        b"\n\n1;255;3;0;22;0\npartial",
    ]
    for stream in streams:
        want = [p.decode("utf-8", "replace") for p in stream.split(b"\n")[:-1]]
        for size in (1, 2, 7, 120, 256, 257, len(stream)):
            gw = mock.MagicMock()
            got = []
            gw.tasks.add_job = lambda fn, line: got.append(line)
            p = cls(gw, lambda: None)
            for i in range(0, len(stream), size):
                p.data_received(stream[i : i + size])
            if got != want:
                return True, f"{cls.__name__}: a {len(stream)}-byte stream delivered in chunks of {size} bytes yields the lines {got!r}; the stream contains {want!r}"
    return False, "all chunkings yield the lines of the stream"


HOOKS += [
    (re.compile(r"^reconnect-hook"), replay_reconnect),
    (re.compile(r"^L\.(json|pickle)-(sensor|child)|^digit-keys"), replay_roundtrip),
    (re.compile(r"safe_load_sensors|_load_sensors|^Persistence\._perform_file_action"), replay_damaged_files),
    (re.compile(r"^schedule_save|^save_on_schedule"), replay_schedule),
    (re.compile(r"data_received|handle_packet"), replay_framing),
]


def replay_ota_history(model, rec):
    """whole firmware downloads over a real gateway, also after a different image was registered under the same
    type and version and after a restarted update: every block served must be the bytes of the image that is
    registered at that moment, and the advertised block count and CRC must be those of that image"""
    import binascii
    import struct
    from unittest import mock

    import mysensors
    from mysensors.ota import compute_crc

    def download(gw, node, fw_type, fw_ver, image, order):
        padded = image + b"\xff" * ((128 - len(image) % 128) % 128 if len(image) % 128 else (0 if image else 128))
        req = binascii.hexlify(struct.pack("<5H", 9, 9, 1, 0, 0x0101)).decode()
        r = gw.logic(f"{node};255;4;0;0;{req}\n")
        if r is None:
            return f"node {node}: no config response"
        t, v, blocks, crc = struct.unpack("<4H", binascii.unhexlify(r.rstrip().split(";")[5])[:8])
        data_len = blocks * 16
        if (t, v) != (fw_type, fw_ver) or data_len < len(image) or data_len % 128:
            return f"node {node}: config response advertises type {t} version {v} blocks {blocks} for an image of {len(image)} bytes"
        got = {}
        for blk in order(blocks):
            breq = binascii.hexlify(struct.pack("<3H", fw_type, fw_ver, blk)).decode()
            r = gw.logic(f"{node};255;4;0;2;{breq}\n")
            if r is None:
                return f"node {node}: no answer to the request for block {blk}"
            pay = binascii.unhexlify(r.rstrip().split(";")[5])
            if struct.unpack("<3H", pay[:6]) != (fw_type, fw_ver, blk):
                return f"node {node}: block {blk} answered with header {struct.unpack('<3H', pay[:6])}"
            got[blk] = pay[6:]
        served = b"".join(got[b] for b in range(blocks))
        if served[: len(image)] != image or set(served[len(image):]) - {0xFF}:
            bad = next(b for b in range(blocks) if got[b] != (image + b"\xff" * data_len)[b * 16 : b * 16 + 16])
            return f"node {node}: block {bad} is {got[bad].hex()}, the registered image has {(image + bytes([255]) * data_len)[bad * 16 : bad * 16 + 16].hex()} there"
        if compute_crc(served) != crc:
            return f"node {node}: advertised CRC {crc} is not the CRC of the served bytes"
        return None

    img_a = bytes(range(1, 41)) * 5
    img_b = bytes(range(200, 100, -1)) * 3
    for version in ("2.0", "2.2"):
        gw = mysensors.Gateway(event_callback=None, protocol_version=version)
        gw.tasks = mysensors.task.SyncTasks(gw.const, False, "x.json", gw.sensors, mock.MagicMock())
        for n in (1, 2):
            gw.logic(f"{n};255;0;0;17;{version}\n")
        steps = [
            ("image A for node 1", [1], img_a, lambda blocks: range(blocks - 1, -1, -1)),
            ("image B under the same type and version for nodes 1 and 2", [1, 2], img_b, lambda blocks: list(range(blocks)) + [0]),
            ("image A again", [2], img_a, lambda blocks: range(blocks)),
        ]
        for what, nodes, image, order in steps:
            gw.tasks.ota.make_update(nodes, 3, 7, image)
            for n in nodes:
                why = download(gw, n, 3, 7, image, order)
                if why:
                    return True, f"version {version}, after registering {what}: {why}"
        # two firmwares at once: node 1 is scheduled for (3,7) = A, node 2 for (5,9) = B; node 1, past its config
        # step, asks for blocks of B (a node still pulling the image of an earlier assignment does this): every answer
        # must echo the type, version and index it answers and carry B's bytes
        gw.tasks.ota.make_update([1], 3, 7, img_a)
        gw.tasks.ota.make_update([2], 5, 9, img_b)
        req = binascii.hexlify(struct.pack("<5H", 9, 9, 1, 0, 0x0101)).decode()
        gw.logic(f"1;255;4;0;0;{req}\n")
        padded_b = img_b + b"\xff" * (-len(img_b) % 128)
        for blk in (len(padded_b) // 16 - 1, 0, 3):
            breq = binascii.hexlify(struct.pack("<3H", 5, 9, blk)).decode()
            r = gw.logic(f"1;255;4;0;2;{breq}\n")
            if r is None:
                continue  # refusing to serve an image the node is not scheduled for is not a wrong answer
            pay = binascii.unhexlify(r.rstrip().split(";")[5])
            if struct.unpack("<3H", pay[:6]) != (5, 9, blk) or pay[6:] != padded_b[blk * 16 : blk * 16 + 16]:
                return True, (
                    f"version {version}: node 1 (scheduled for type 3 version 7) asks for block {blk} of type 5 version 9 and is "
                    f"answered with header {struct.unpack('<3H', pay[:6])} and data {pay[6:].hex()}; that block is {padded_b[blk * 16 : blk * 16 + 16].hex()}"
                )
    return False, "every download served the registered image"


HOOKS.insert(0, (re.compile(r"^(OTAFirmware|prepare_fw|L\.header|L\.blocks).*frame\.|^OTAFirmware\.respond_fw"), replay_ota_history))


def replay_gateway_schedules(model, rec):
    """the same inbound lines through a real threaded-flavour gateway under two arrival schedules - every line
    handled before the next arrives, and all lines queued before the pump runs: what reaches the transport
    must be the same lines (their order is F8's subject, so multisets are compared), and the state trees equal"""
    from unittest import mock

    import mysensors

    histories = [
        ["1;0;1;0;23;43", "2;0;1;0;23;43", "3;255;3;0;0;55"],
        ["1;255;0;0;17;2.0", "1;9;2;0;2;", "4;9;2;0;2;", "1;255;3;0;6;0"],
        ["1;255;0;0;17;2.0", "1;0;0;0;3;lamp", "1;0;1;0;2;1", "1;0;2;0;2;", "5;0;2;0;2;", "6;1;1;0;0;20"],
        ["255;255;3;0;3;", "255;255;3;0;3;", "0;255;3;0;14;Gateway startup complete."],
    ]

    def run(version, lines, batch):
        gw = mysensors.Gateway(event_callback=None, protocol_version=version)
        sent = []
        tr = mock.MagicMock()
        tr.send = lambda m: sent.append(m) if m else None
        gw.tasks = mysensors.task.SyncTasks(gw.const, False, "x.json", gw.sensors, tr)

        def drain():
            while gw.tasks.queue:
                tr.send(gw.tasks.run_job())

        for ln in lines:
            gw.tasks.add_job(gw.logic, ln + "\n")
            if not batch:
                drain()
        drain()
        tree = {n: (s.type, s.protocol_version, {c: dict(ch.values) for c, ch in s.children.items()}) for n, s in gw.sensors.items()}
        return sorted(sent), tree

    for version in ("2.0", "2.2", "1.5"):
        for lines in histories:
            a, ta = run(version, lines, batch=False)
            b, tb = run(version, lines, batch=True)
            if a != b or ta != tb:
                return True, (
                    f"version {version}, lines {lines!r}: handled one at a time the gateway emits {a!r}; with all lines queued "
                    f"before the pump runs it emits {b!r}" + ("" if ta == tb else f"; state trees differ: {ta!r} vs {tb!r}")
                )
    return False, "both arrival schedules emit the same lines and reach the same state"


HOOKS.insert(0, (re.compile(r"^Gateway\..*frame\."), replay_gateway_schedules))


def replay_late_dial_in(model, rec):
    """connect attempts fail for longer than 2 x reconnect_timeout, then one succeeds: the first watchdog check
    on the new link must not drop it"""
    import asyncio
    import socket
    from unittest import mock

    from mysensors import gateway_tcp as GT

    now = [0.0]

    def sleep(d):
        now[0] += d

    if "async" not in rec["name"]:
        attempts = []

        def create_connection(*a, **k):
            attempts.append(now[0])
            if len(attempts) <= 3:
                raise socket.timeout("timed out")
            return mock.MagicMock()

        with mock.patch("time.time", lambda: now[0]), mock.patch("time.sleep", sleep), mock.patch.object(
            socket, "create_connection", create_connection
        ), mock.patch.object(GT, "TCPTransport", mock.MagicMock()):
            gw = GT.TCPGateway("127.0.0.1", reconnect_timeout=10.0)
            gw.tasks.add_job = lambda *a: None
            GT.sync_connect(gw.tasks.transport)
            now[0] += 0.02
            try:
                gw.check_connection()
            except OSError as e:
                return True, f"threaded TCP: dial-in succeeds at t={attempts[-1]} after {len(attempts) - 1} failed attempts (reconnect_timeout 10 s); the first watchdog check on the new link raises OSError('{e}')"
        return False, "the new link survives its first watchdog check"

    async def scenario():
        with mock.patch("time.time", lambda: now[0]):
            gw = GT.AsyncTCPGateway("127.0.0.1", reconnect_timeout=10.0)
        gw.tasks.add_job = lambda *a: None
        calls = []

        async def wait_for(aw, timeout):
            calls.append(now[0])
            if hasattr(aw, "close"):
                aw.close()
            if len(calls) <= 3:
                now[0] += timeout
                raise asyncio.TimeoutError()
            return mock.MagicMock(), mock.MagicMock()

        async def asleep(d):
            now[0] += d

        dropped = []
        proto = mock.MagicMock()
        proto.transport.close = lambda: dropped.append(now[0])
        gw.tasks.transport.protocol = proto
        loop = asyncio.get_running_loop()
        with mock.patch("time.time", lambda: now[0]), mock.patch.object(asyncio, "wait_for", wait_for), mock.patch.object(
            asyncio, "sleep", asleep
        ), mock.patch.object(loop, "create_connection", lambda *a, **k: mock.MagicMock()), mock.patch.object(
            loop, "call_later", lambda *a, **k: mock.MagicMock()
        ):
            try:
                await GT.async_connect(gw.tasks.transport)
            except OSError as e:
                return True, f"asyncio TCP: dial-in after {len(calls) - 1} timed-out attempts; the first watchdog check raises OSError('{e}')"
        if dropped:
            return True, f"asyncio TCP: dial-in succeeds at t={calls[-1]} after {len(calls) - 1} timed-out attempts (reconnect_timeout 10 s); the first watchdog check closes the new link at once"
        return False, "the new link survives its first watchdog check"

    return asyncio.run(scenario())


HOOKS.insert(0, (re.compile(r"tcp_connect\.connected"), replay_late_dial_in))


def replay_save_faults(model, rec):
    """inject an I/O error at every fsync / rename / remove of a real save: a save that raised must leave the
    state marked as unsaved, and the next save must put the current state on disk"""
    import os
    import tempfile
    from unittest import mock

    from mysensors.persistence import Persistence
    from mysensors.sensor import Sensor

    m = re.search(r"fmt=(json|pickle)", rec["name"])
    for ext in (m.group(1),) if m else ("json", "pickle"):
        for prior in (False, True):
            for op in ("fsync", "rename", "remove"):
                for k in (0, 1):
                    with tempfile.TemporaryDirectory() as d:
                        path = os.path.join(d, "net." + ext)
                        net = _network()
                        p = Persistence(net, mock_schedule, path)
                        if prior:
                            p.save_sensors()
                        net[11] = Sensor(11)
                        p.need_save = True
                        real = getattr(os, op)
                        seen = [0]

                        def faulty(*a, _real=real, **kw):
                            seen[0] += 1
                            if seen[0] == k + 1:
                                raise OSError(28, "No space left on device")
                            return _real(*a, **kw)

                        raised = False
                        with mock.patch.object(os, op, faulty):
                            try:
                                p.save_sensors()
                            except OSError:
                                raised = True
                        if not raised:
                            continue
                        if not p.need_save:
                            return True, f"{ext}, {'with' if prior else 'without'} a prior file: os.{op} call #{k + 1} fails, save_sensors raises, and need_save is False although node 11 is not on disk: the next scheduled save and stop() write nothing"
                        p.save_sensors()
                        loaded = {}
                        Persistence(loaded, mock_schedule, path).safe_load_sensors()
                        if _view(loaded) != _view(net):
                            return True, f"{ext}: after os.{op} call #{k + 1} failed, the next save does not put the current state on disk"
    return False, "every failing save leaves the state marked unsaved and the next save persists it"


HOOKS.insert(0, (re.compile(r"^Persistence\.save_sensors.*(still-dirty|raises)|^L\.next-save"), replay_save_faults))


def replay_mqtt_subscriptions(model, rec):
    """start with a subscribe callback that fails (client not connected yet), then start again with a working
    one: everything the second start needs must be subscribed then; presenting a child again after a failed
    subscription must subscribe its topics"""
    from unittest import mock

    from mysensors.gateway_mqtt import MQTTGateway
    from mysensors.sensor import ChildSensor, Sensor

    ok = []
    state = {"up": False}

    def sub(topic, callback, qos):
        if not state["up"]:
            raise RuntimeError("client not connected")
        ok.append(topic)

    gw = MQTTGateway(mock.MagicMock(), sub, in_prefix="in", persistence=True, persistence_file="x.json")
    gw.sensors[1] = Sensor(1)
    gw.sensors[1].children[1] = ChildSensor(1, 6, "t")
    gw.init_topics()
    state["up"] = True
    gw.init_topics()
    need = {"in/+/+/0/+/+", "in/+/+/3/+/+", "in/1/1/1/+/+", "in/1/1/2/+/+", "in/1/+/4/+/+"}
    missing = sorted(need - set(ok))
    if missing:
        return True, f"first start while the subscribe callback raises, second start with a working callback: {missing} are never subscribed"
    return False, "a second start subscribes everything the first one could not"


HOOKS.insert(0, (re.compile(r"^(MQTTTransport|BaseMQTTGateway)\..*frame\.|handle_subscription|init_topics"), replay_mqtt_subscriptions))


def replay_send_race(model, rec):
    """send() while another thread disconnects or the reader loses the connection: the interference is injected
    at the points where send() touches the shared attributes (during the write, and right before it)"""
    from unittest import mock

    from mysensors import transport as TR

    for cls in (TR.Transport, TR.SyncTransport):
        for when in ("before-write", "in-write"):
            for what in ("disconnect", "lost"):
                for fails in (False, True):
                    tr = cls(mock.MagicMock(), lambda t: None)
                    conn = mock.MagicMock()
                    proto = mock.MagicMock()
                    proto.transport = conn
                    tr.protocol = proto

                    def interfere():
                        if what == "disconnect":
                            tr.protocol = None
                        else:
                            proto.transport = None

                    def write(data):
                        if when == "in-write":
                            interfere()
                        if fails:
                            raise OSError("broken pipe")

                    conn.write = write
                    if when == "before-write":
                        # the interference lands between the check of the connection and the write
                        real_strip = "x".strip

                        class Msg(str):
                            def encode(self, *a, **k):
                                interfere()
                                return str.encode(self, *a, **k)

                        message = Msg("1;1;1;0;2;1\n")
                    else:
                        message = "1;1;1;0;2;1\n"
                    try:
                        tr.send(message)
                    except Exception as e:  # noqa: BLE001
                        return True, f"{cls.__name__}.send: {what} by another thread {when.replace('-', ' ')}" + (", the write failing with OSError" if fails else "") + f": {type(e).__name__}: {e} escapes into the message pump"
    return False, "send never raises under the injected interference"


HOOKS.insert(0, (re.compile(r"^(Transport|SyncTransport|AsyncTransport)\.send"), replay_send_race))


def replay_dirty_flag(model, rec):
    """histories on a real gateway with persistence: after a save, every accepted line that changes what the
    file would hold must mark the state as unsaved and call the event callback once"""
    import os
    import tempfile
    from unittest import mock

    import mysensors

    def tree(gw):
        return {
            n: (s.type, s.sketch_name, s.sketch_version, s.battery_level, s.protocol_version, s.heartbeat, {c: (ch.type, ch.description, dict(ch.values)) for c, ch in s.children.items()})
            for n, s in gw.sensors.items()
        }

    setups = {
        "empty": [],
        "node": ["1;255;0;0;17;2.0", "1;0;0;0;3;lamp", "1;0;1;0;2;0"],
        "node-awaiting-reboot": ["1;255;0;0;17;2.0", "1;0;0;0;3;lamp", "1;0;1;0;2;0", "REBOOT 1"],
        "sleeping": ["1;255;0;0;17;2.0", "1;0;0;0;3;lamp", "1;0;1;0;2;0", "1;255;3;0;22;5", "1;255;3;0;32;500"],
    }
    lines = ["255;255;3;0;3;", "1;0;1;0;2;1", "1;255;3;0;0;77", "1;255;3;0;11;sketch", "1;255;3;0;12;1.1", "1;1;0;0;6;temp", "9;255;0;0;17;2.0", "1;255;3;0;22;9", "1;0;1;0;3;40"]
    for version in ("2.0", "1.4"):
        for sname, hist in setups.items():
            for line in lines:
                with tempfile.TemporaryDirectory() as d:
                    events = []
                    gw = mysensors.Gateway(event_callback=lambda m: events.append(m), protocol_version=version)
                    gw.tasks = mysensors.task.SyncTasks(gw.const, True, os.path.join(d, "p.json"), gw.sensors, mock.MagicMock())
                    for h in hist:
                        if h.startswith("REBOOT"):
                            gw.sensors[int(h.split()[1])].reboot = True
                        else:
                            gw.logic(h + "\n")
                    gw.tasks.persistence.need_save = False  # "a periodic save has just completed"
                    del events[:]
                    before = tree(gw)
                    gw.logic(line + "\n")
                    if tree(gw) != before:
                        if not gw.tasks.persistence.need_save:
                            return True, f"version {version}, state '{sname}': the line {line!r} changes the persisted view but need_save stays False: a stop() right after it writes nothing"
                        if len(events) != 1:
                            return True, f"version {version}, state '{sname}': the line {line!r} changes the state and the event callback fired {len(events)} times"
                    if len(events) == 1:
                        m = events[0]
                        got = (m.node_id, m.child_id, int(m.type), m.ack, int(m.sub_type), str(m.payload))
                        f = line.split(";")
                        want = (int(f[0]), int(f[1]), int(f[2]), int(f[3]), int(f[4]), f[5])
                        if got != want:
                            return True, f"version {version}, state '{sname}': for the line {line!r} the event callback received the fields {got!r}"
    return False, "every state-changing line marks the state unsaved and fires one event"


HOOKS.insert(0, (re.compile(r"reservation-marked-dirty|dirty-on-change|dirty-sticky|events-on-change|events-at-most-one"), replay_dirty_flag))


# Hooks that are self-contained searches over a fixed corpus (they do not read the counter-model) and that cannot
# reproduce a recorded known finding: the runner may use them as the bounded stand-in for a task the engine left
# undecided.
STANDIN_HOOKS = {replay_framing, replay_codec, replay_mqtt, replay_prepare_fw, replay_config, replay_next_id, replay_validate, replay_damaged_files, replay_roundtrip}


def replay_concurrent_report(model, rec):
    """a value reported by the pump thread while the timer thread is inside save_sensors (after the serialiser ran,
    before the function returns), then a clean stop and a restart: the restarted gateway must hold the value"""
    import os
    import shutil
    import tempfile
    import threading
    from unittest import mock

    import mysensors
    from mysensors import persistence as P

    for ext in (".json", ".pickle"):
        for where in ("fsync", "rename"):
            d = tempfile.mkdtemp(prefix="pyvc_race_")
            try:
                path = os.path.join(d, "state" + ext)
                with mock.patch("threading.Timer"):
                    gw = mysensors.Gateway(protocol_version="2.0")
                    gw.tasks = mysensors.task.SyncTasks(gw.const, True, path, gw.sensors, mock.MagicMock())
                    for line in ("1;255;0;0;17;2.0\n", "1;0;0;0;6;\n", "1;0;1;0;0;20.0\n"):
                        gw.logic(line)
                    gw.tasks.persistence.save_sensors()
                    gw.logic("1;0;1;0;0;21.0\n")
                    real = getattr(os, where)
                    fired = []

                    def op_then_report(*a, _real=real, _gw=gw, _fired=fired):
                        if not _fired:
                            _fired.append(1)
                            t = threading.Thread(target=_gw.logic, args=("1;0;1;0;0;22.5\n",))
                            t.start()
                            t.join()
                        return _real(*a)

                    with mock.patch.object(P.os, where, op_then_report):
                        gw.tasks.persistence.save_sensors()
                    held = gw.sensors[1].children[0].values[0]
                    gw.tasks.stop()
                gw2 = mysensors.Gateway(protocol_version="2.0")
                with mock.patch("threading.Timer"):
                    gw2.tasks = mysensors.task.SyncTasks(gw2.const, True, path, gw2.sensors, mock.MagicMock())
                    gw2.tasks.persistence.safe_load_sensors()
                got = gw2.sensors[1].children[0].values[0] if 1 in gw2.sensors else None
                if got != held:
                    return True, (
                        f"{ext}: '1;0;1;0;0;22.5' handled by the pump thread while the periodic save was at its {where} call; the save "
                        f"returned with need_save = False, stop() skipped the final save; gateway held {held!r} at stop, the restarted gateway holds {got!r}"
                    )
            finally:
                shutil.rmtree(d, ignore_errors=True)
    # second leg: the periodic save is still in flight (held at its last file operation) when the report arrives AND
    # when stop() runs - the final save of stop() must still write the current state
    for ext in (".json", ".pickle"):
        d = tempfile.mkdtemp(prefix="pyvc_race_")
        try:
            path = os.path.join(d, "state" + ext)
            with mock.patch("threading.Timer"):
                gw = mysensors.Gateway(protocol_version="2.0")
                gw.tasks = mysensors.task.SyncTasks(gw.const, True, path, gw.sensors, mock.MagicMock())
                for line in ("1;255;0;0;17;2.0\n", "1;0;0;0;6;\n", "1;0;1;0;0;20.0\n"):
                    gw.logic(line)
                gw.tasks.persistence.save_sensors()
                gw.logic("1;0;1;0;0;21.0\n")
                real = os.remove
                fired = []

                def remove_then_stop(*a, _gw=gw, _fired=fired, _real=real):
                    if not _fired:
                        _fired.append(1)
                        for target, args in ((_gw.logic, ("1;0;1;0;0;22.5\n",)), (_gw.tasks.stop, ())):
                            t = threading.Thread(target=target, args=args)
                            t.start()
                            t.join(20)
                    return _real(*a)

                with mock.patch.object(P.os, "remove", remove_then_stop):
                    try:
                        gw.tasks.persistence.save_sensors()
                    except OSError:
                        pass  # the overtaken periodic save may find its backup gone: it fails, the state stays dirty
                held = gw.sensors[1].children[0].values[0]
            gw2 = mysensors.Gateway(protocol_version="2.0")
            with mock.patch("threading.Timer"):
                gw2.tasks = mysensors.task.SyncTasks(gw2.const, True, path, gw2.sensors, mock.MagicMock())
                gw2.tasks.persistence.safe_load_sensors()
            got = gw2.sensors[1].children[0].values[0] if 1 in gw2.sensors else None
            if got != held:
                return True, (
                    f"{ext}: a periodic save is held at its last file operation, '1;0;1;0;0;22.5' is handled, stop() runs and returns, then the "
                    f"periodic save finishes; gateway held {held!r} at stop, the restarted gateway holds {got!r}"
                )
        finally:
            shutil.rmtree(d, ignore_errors=True)
    return False, "a report racing with a periodic save is on disk after a clean stop"


HOOKS.insert(0, (re.compile(r"concurrent-report|^Persistence\.save_sensors.*frame\.|^save_sensors.*frame\."), replay_concurrent_report))


def replay_stop_during_retry(model, rec):
    """threaded connect loops: the peer is unreachable, the loop sleeps between attempts, the user stops the gateway
    during the second sleep; afterwards the peer becomes reachable.  No attempt, reader or callback may follow."""
    from unittest import mock

    from mysensors import gateway_serial as GS
    from mysensors import gateway_tcp as GT
    from mysensors.transport import SyncTransport

    class Enough(Exception):
        pass

    for mod, fn_name, fail in ((GT, "create_connection", OSError("unreachable")), (GS, "serial_for_url", GS.serial.SerialException("no port"))):
        gw = mock.MagicMock()
        gw.server_address = ("host", 5003)
        transport = SyncTransport(gw, mod.sync_connect, timeout=1.0, reconnect_timeout=7.0)
        events = []
        sleeps = []

        def attempt(*a, _e=events, _s=sleeps, _f=fail, **k):
            _e.append(("attempt", len(_s)))
            if len(_s) < 4:
                raise _f
            return mock.MagicMock()

        def sleep(sec, _e=events, _s=sleeps, _t=transport):
            _s.append(sec)
            if len(_s) == 2:
                _t.disconnect()  # what SyncTasks.stop() does first
                _e.append(("stop", len(_s)))
            if len(_s) > 8:
                raise Enough()

        target = mock.patch.object(mod.socket, "create_connection", attempt) if mod is GT else mock.patch.object(mod.serial, "serial_for_url", attempt)
        reader = mock.patch.object(GT, "TCPTransport") if mod is GT else mock.patch.object(mod.serial.threaded, "ReaderThread")
        with target, reader as rd, mock.patch.object(mod.time, "sleep", sleep):
            try:
                mod.sync_connect(transport)
            except Enough:
                pass
            started = rd.call_count
        stop_at = next((i for i, e in enumerate(events) if e[0] == "stop"), None)
        later = [e for e in events[stop_at + 1 :] if e[0] == "attempt"] if stop_at is not None else []
        if later or (stop_at is not None and started):
            return True, (
                f"{mod.__name__}.sync_connect: two failed attempts, stop() during the second wait of 7.0 s; afterwards the loop made "
                f"{len(later)} more connect attempt(s) and started {started} reader thread(s)"
            )
    if "tcp" in rec["name"]:
        return replay_late_dial_in(model, rec)
    return False, "no attempt follows a stop during the retry wait"


HOOKS.insert(0, (re.compile(r"sync-(tcp|serial)_connect|sync_connect\.loop0"), replay_stop_during_retry))


def replay_connection_lost(model, rec):
    """a loss reported to a real protocol object - with an error, and with None (a close the library or the user
    asked for): the connection-lost callback fires once with that cause and the protocol forgets the dead connection"""
    from unittest import mock

    from mysensors import transport as TR
    from mysensors.gateway_tcp import AsyncTCPMySensorsProtocol

    for cls in (TR.BaseMySensorsProtocol, TR.AsyncMySensorsProtocol, AsyncTCPMySensorsProtocol):
        for exc in (None, OSError("read failed")):
            gw = mock.MagicMock()
            p = cls(gw, mock.MagicMock())
            dead = mock.MagicMock()
            p.transport = dead
            try:
                p.connection_lost(exc)
            except Exception as e:  # noqa: BLE001
                return True, f"{cls.__name__}.connection_lost({exc!r}) raised {type(e).__name__}: {e}"
            if gw.on_conn_lost.call_count != 1 or gw.on_conn_lost.call_args[0][1] is not exc:
                return True, f"{cls.__name__}.connection_lost({exc!r}): the connection-lost callback was called {gw.on_conn_lost.call_count} times / with {gw.on_conn_lost.call_args}"
            if p.transport is not None:
                return True, f"{cls.__name__}.connection_lost({exc!r}): protocol.transport still is the dead connection - a later send writes to it"
    return False, "every loss is reported once and the dead connection is forgotten"


HOOKS.insert(0, (re.compile(r"^_?connection_lost\[.*\]\.(connection-forgotten|callback)"), replay_connection_lost))
