"""C11 - persistence round trip: the repository's JSON hooks and pickle state hooks are mutually inverse
on the persisted fields and reset the transient ones.  json / pickle themselves are assumed (T-json, T-pickle):
they call `default` for every Sensor/ChildSensor, `object_hook` bottom-up on every dict, and stringify dict keys."""
import z3

from mysensors import persistence as P
from mysensors import sensor as S
from pyvc.contract import contract, own_container
from pyvc.values import ModelFn, Obj, Opaque

PERSISTED = ("sensor_id", "type", "sketch_name", "sketch_version", "battery_level", "protocol_version", "heartbeat")


def _sensor(h, token="children-token"):
    s = Obj(S.Sensor, name="sensor")
    ctx = h.ctx
    bat = h.sym("int", "battery")
    hb = h.sym("int", "heartbeat")
    pv = h.sym("str", "protocol_version")
    # I-shape of a reachable sensor: the attribute setters already sanitised what is stored
    ctx.add_fact(z3.And(bat.term >= 0, bat.term <= 100))
    s.fields.update(
        sensor_id=h.sym("int", "sensor_id"),
        children=Opaque(token),
        type=h.sym("any", "type"),
        sketch_name=h.sym("any", "sketch_name"),
        sketch_version=h.sym("any", "sketch_version"),
        _battery_level=bat,
        _protocol_version=pv,
        _heartbeat=hb,
        new_state=Opaque("pending-desired-state"),
        queue=Opaque("withheld-replies"),
        reboot=h.sym("bool", "reboot"),
    )
    return s


def _child(h):
    c = Obj(S.ChildSensor, name="child")
    c.fields.update(id=h.sym("int", "id"), type=h.sym("int", "type"), description=h.sym("str", "description"), values=Opaque("values-token"))
    return c


def _sanitised(h, s):
    """the stored protocol version is one that safe_is_version keeps (it was stored through the setter)"""
    from pyvc.libmodels import version_ge_14_term

    h.ctx.add_fact(version_ge_14_term(h.it, s.fields["_protocol_version"].term))


def _json_sensor_roundtrip(enc, dec, s):
    d = enc.default(s)
    return (d, dec.dict_to_object(d))


@contract("mysensors.persistence:MySensorsJSONEncoder.default", props=["C11"], name="L.json-sensor")
class JsonSensor:
    lemma = True
    params = ["enc", "dec", "s"]
    body = _json_sensor_roundtrip

    def setup(h):
        s = _sensor(h)
        _sanitised(h, s)
        return [Obj(P.MySensorsJSONEncoder, name="enc"), Obj(P.MySensorsJSONDecoder, name="dec"), s], {}

    raises = {}
    ensures = {
        # the encoder emits exactly the persisted attributes; no transient state goes to disk
        "encoded-keys": lambda old, enc, dec, s, result: sorted(result[0].keys())
        == ["battery_level", "children", "heartbeat", "protocol_version", "sensor_id", "sketch_name", "sketch_version", "type"],
        # decoding restores every node attribute exactly
        "attributes": lambda old, enc, dec, s, result: result[1].sensor_id == s.sensor_id
        and result[1].type == s.type
        and result[1].sketch_name == s.sketch_name
        and result[1].sketch_version == s.sketch_version
        and result[1].battery_level == s.battery_level
        and result[1].protocol_version == s.protocol_version
        and result[1].heartbeat == s.heartbeat
        and result[1].children is s.children,
        # transient state is never resurrected by a load
        "transient-reset": lambda old, enc, dec, s, result: not result[1].new_state and not result[1].queue and not result[1].reboot,
    }


def _json_child_roundtrip(enc, dec, c):
    d = enc.default(c)
    return (d, dec.dict_to_object(d))


@contract("mysensors.persistence:MySensorsJSONDecoder.dict_to_object", props=["C11"], name="L.json-child")
class JsonChild:
    lemma = True
    params = ["enc", "dec", "c"]
    body = _json_child_roundtrip

    def setup(h):
        return [Obj(P.MySensorsJSONEncoder, name="enc"), Obj(P.MySensorsJSONDecoder, name="dec"), _child(h)], {}

    raises = {}
    ensures = {
        "encoded-keys": lambda old, enc, dec, c, result: sorted(result[0].keys()) == ["description", "id", "type", "values"],
        "fields": lambda old, enc, dec, c, result: result[1].id == c.id
        and result[1].type == c.type
        and result[1].description == c.description
        and result[1].values is c.values,
    }


@contract("mysensors.persistence:MySensorsJSONDecoder.dict_to_object", props=["C11"], name="digit-keys")
class JsonDigitKeys:
    """JSON stringifies integer keys; the decoder turns all-digit keys back into integers (children by id,
    values by type).  Shape-bounded: dicts of 0..3 entries; key and value contents symbolic."""

    configs = [{"n": n} for n in (0, 1, 2, 3)]

    def setup(h):
        ctx = h.ctx
        d = {}
        keys = []
        for i in range(h.config["n"]):
            k = 10 + i
            d[str(k)] = h.sym("str", f"v{i}")
            keys.append(k)
        h.it.env["keys"] = keys
        h.it.env["dict"] = dict(d)
        return [Obj(P.MySensorsJSONDecoder, name="dec"), d], {}

    raises = {}
    ensures = {"int-keys": lambda old, self, obj, result: sorted(result.keys()) == int_keys() and values_kept(result)}


def int_keys():
    return []


def values_kept(result):
    return True


_jdk = JsonDigitKeys.__dict__["setup"]


def _jdk_setup(h):
    args = _jdk(h)
    h.it.models[id(int_keys)] = ModelFn("int_keys", lambda it, a, k: list(it.env["keys"]))
    h.it.models[id(values_kept)] = ModelFn(
        "values_kept", lambda it, a, k: all(a[0][kk] is it.env["dict"][str(kk)] for kk in it.env["keys"])
    )
    return args


JsonDigitKeys.setup = _jdk_setup


def _pickle_sensor_roundtrip(s, fresh):
    state = s.__getstate__()
    fresh.__setstate__(state)
    return (state, fresh)


@contract("mysensors.sensor:Sensor.__getstate__", props=["C07", "C08", "C11"], name="L.pickle-sensor")
class PickleSensor:
    lemma = True
    params = ["s", "fresh"]
    body = _pickle_sensor_roundtrip

    def setup(h):
        s = _sensor(h)
        _sanitised(h, s)
        return [s, Obj(S.Sensor, name="unpickled")], {}

    raises = {}
    ensures = {
        "attributes": lambda old, s, fresh, result: fresh.sensor_id == s.sensor_id
        and fresh.type == s.type
        and fresh.sketch_name == s.sketch_name
        and fresh.sketch_version == s.sketch_version
        and fresh.battery_level == s.battery_level
        and fresh.protocol_version == s.protocol_version
        and fresh.heartbeat == s.heartbeat
        and fresh.children is s.children,
        "transient-reset": lambda old, s, fresh, result: not fresh.new_state and not fresh.queue and not fresh.reboot,
        # ... and reset to containers of the loaded node's own: nothing a later node, or a later load, shares
        "transient-own": lambda old, s, fresh, result: own_container(fresh.new_state)
        and own_container(fresh.queue)
        and fresh.new_state is not s.new_state
        and fresh.queue is not s.queue,
        "source-untouched": lambda old, s, fresh, result: s.battery_level == old.s.battery_level and s.reboot == old.s.reboot,
    }


def _pickle_child(c, state):
    c.__setstate__(state)
    return c


@contract("mysensors.sensor:ChildSensor.__setstate__", props=["C11"], name="L.pickle-child")
class PickleChild:
    lemma = True
    params = ["c", "state"]
    body = _pickle_child
    configs = [{"description": d} for d in (True, False)]

    def setup(h):
        st = {"id": h.sym("int", "id"), "type": h.sym("int", "type"), "values": Opaque("values-token")}
        if h.config["description"]:
            st["description"] = h.sym("str", "description")
        h.it.env["state"] = st
        return [Obj(S.ChildSensor, name="unpickled-child"), st], {}

    raises = {}
    ensures = {
        "fields": lambda old, c, state, result: c.id == state["id"]
        and c.type == state["type"]
        and c.values is state["values"]
        and c.description == (state["description"] if "description" in state else ""),
    }
