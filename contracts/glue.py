"""The thin functions between the gateway classes, the task objects and the transports: each is specified by
what it asks of its collaborators, exactly once and in order (the collaborators' own contracts are elsewhere).
They are on the paths of C10 (update call), C13/C14 (start/stop around the persistence file), C17 (inbound
MQTT) and C20 (asyncio TCP watchdog, disconnect)."""
import asyncio

import z3

import mysensors
from mysensors import gateway_mqtt as GM
from mysensors import gateway_tcp as GT
from mysensors import ota as OTA
from mysensors import task as T
from mysensors import transport as TR
from pyvc.contract import contract
from pyvc.core import ExcVal, PyRaise
from pyvc.values import Awaitable, ModelFn, Modelled, Obj, Opaque


def calls_are(*expected):
    return True


def _logger(h):
    log = []
    h.ctx.ghost["gluelog"] = log

    def m_calls(it, a, k):
        want = [tuple(x) if isinstance(x, (list, tuple)) else (x,) for x in a]
        if len(want) != len(log):
            return False
        for w, g in zip(want, log):
            if len(w) != len(g) or w[0] != g[0]:
                return False
            for x, y in zip(w[1:], g[1:]):
                if x is not y and not (isinstance(x, (int, float, str, bool, type(None))) and x == y):
                    return False
        return True

    h.it.models[id(calls_are)] = ModelFn("calls_are", m_calls)
    return log


def _fn(log, name, ret=None, awaitable=False):
    def call(it, a, k):
        log.append((name,) + tuple(a) + tuple(v for _, v in sorted(k.items())))
        return ret

    if not awaitable:
        return ModelFn(name, call)
    return ModelFn(name, lambda it, a, k: Awaitable(lambda it2: call(it2, a, k), name))


# ------------------------------------------------------------------------------------------- start_persistence
def _start_persistence(cls, is_async):
    def setup(h):
        log = _logger(h)
        t = Obj(cls, name="tasks")
        p = None
        if h.config["persistence"]:
            p = Modelled("persistence")
            p.attrs["safe_load_sensors"] = _fn(log, "load")
            p.attrs["schedule_save_sensors"] = _fn(log, "schedule", awaitable=is_async)
        t.fields.update(persistence=p, transport=None, queue=None, ota=None, _cancel_save=None)
        if is_async:
            loop = Modelled("loop")
            loop.attrs["run_in_executor"] = ModelFn("run_in_executor", lambda it, a, k: Awaitable(lambda it2: it2.call(a[1], list(a[2:]), {}), "executor"))
            h.it.models[id(asyncio.get_running_loop)] = ModelFn("get_running_loop", lambda it, a, k: loop)
        return [t], {}

    ns = dict(
        configs=[{"persistence": True}, {"persistence": False}],
        setup=setup,
        raises={},
        # with persistence: the file is loaded first, then the periodic save is scheduled, each once; without: nothing
        ensures={"load-then-schedule": lambda old, self, result: calls_are(["load"], ["schedule"]) if self.persistence is not None else calls_are()},
    )
    name = f"{cls.__name__}.start_persistence"
    return contract(f"mysensors.task:{cls.__name__}.start_persistence", props=["C13", "C14"], name=name)(type(name.replace(".", "_"), (), ns))


SyncStartPersistence = _start_persistence(T.SyncTasks, False)
AsyncStartPersistence = _start_persistence(T.AsyncTasks, True)


# ------------------------------------------------------------------------------------------- update_fw
def _update_fw(cls, is_async):
    def setup(h):
        log = _logger(h)
        c = h.config
        t = Obj(cls, name="tasks")
        ota = Modelled("ota")
        ota.attrs["make_update"] = _fn(log, "make_update")
        t.fields.update(persistence=None, transport=None, queue=None, ota=ota, _cancel_save=None)
        image = Opaque("image") if c["image"] == "loaded" else None
        h.it.env["image"] = image
        h.it.models[id(OTA.load_fw)] = ModelFn("load_fw", lambda it, a, k: (log.append(("load_fw", a[0])), image)[1])
        if is_async:
            loop = Modelled("loop")
            loop.attrs["run_in_executor"] = ModelFn("run_in_executor", lambda it, a, k: Awaitable(lambda it2: it2.call(a[1], list(a[2:]), {}), "executor"))
            h.it.models[id(asyncio.get_running_loop)] = ModelFn("get_running_loop", lambda it, a, k: loop)
        nids, ft, fv = h.sym("int", "nid"), h.sym("int", "fw_type"), h.sym("int", "fw_ver")
        path = "firmware.hex" if c["path"] else None
        return [t, nids, ft, fv], {"fw_path": path}

    def ok(old, self, nids, fw_type, fw_ver, result, fw_path=None):
        return (
            calls_are(["make_update", nids, fw_type, fw_ver, None])
            if fw_path is None
            else (
                calls_are(["load_fw", fw_path], ["make_update", nids, fw_type, fw_ver, env_image()])
                if env_image() is not None
                else calls_are(["load_fw", fw_path])  # an unreadable or invalid file: no update is scheduled
            )
        )

    ns = dict(
        configs=[{"path": False, "image": "none"}, {"path": True, "image": "loaded"}, {"path": True, "image": "none"}],
        setup=setup,
        raises={},
        ensures={"schedules-what-was-loaded": ok},
    )
    name = f"{cls.__name__}.update_fw"
    return contract(f"mysensors.task:{cls.__name__}.update_fw", props=["C10"], name=name)(type(name.replace(".", "_"), (), ns))


def env_image():
    return None


SyncUpdateFw = _update_fw(T.SyncTasks, False)
AsyncUpdateFw = _update_fw(T.AsyncTasks, True)


# ------------------------------------------------------------------------------------------- gateway delegations
def _delegation(cls, meth, is_async, props):
    def setup(h):
        log = _logger(h)
        gw = Obj(cls, name="gateway")
        tasks = Modelled("tasks")
        for m_ in ("start", "stop", "start_persistence", "update_fw"):
            tasks.attrs[m_] = _fn(log, m_, awaitable=is_async)
        gw.fields["tasks"] = tasks
        if meth == "update_fw":
            return [gw, h.sym("int", "nid"), h.sym("int", "fw_type"), h.sym("int", "fw_ver")], {"fw_path": "firmware.hex"}
        return [gw], {}

    if meth == "update_fw":
        ens = {"delegates": lambda old, self, nids, fw_type, fw_ver, result, fw_path=None: calls_are(["update_fw", nids, fw_type, fw_ver, fw_path])}
    else:
        ens = {"delegates": lambda old, self, result, _m=meth: calls_are([_m])}
    ns = dict(setup=setup, raises={}, ensures=ens)
    name = f"{cls.__name__}.{meth}"
    return contract(f"mysensors:{cls.__name__}.{meth}", props=props, name=name)(type(name.replace(".", "_"), (), ns))


DELEGATIONS = [
    _delegation(cls, meth, is_async, props)
    for cls, is_async in ((mysensors.BaseSyncGateway, False), (mysensors.BaseAsyncGateway, True))
    for meth, props in (("start", ["C20"]), ("stop", ["C14"]), ("start_persistence", ["C13", "C14"]), ("update_fw", ["C10"]))
]


@contract("mysensors:Gateway.send", props=["C16"])
class GatewaySend:
    def setup(h):
        log = _logger(h)
        gw = Obj(mysensors.Gateway, name="gateway")
        tr = Modelled("transport")
        tr.attrs["send"] = _fn(log, "send")
        tasks = Modelled("tasks")
        tasks.attrs["transport"] = tr
        gw.fields["tasks"] = tasks
        return [gw, h.sym("str", "message")], {}

    raises = {}
    ensures = {"hands-over-once": lambda old, self, message, result: calls_are(["send", message])}


# ------------------------------------------------------------------------------------------- Transport.disconnect
@contract("mysensors.transport:Transport.disconnect", props=["C14", "C20"])
class Disconnect:
    configs = [{"state": s} for s in ("never-connected", "lost", "connected")]

    def setup(h):
        log = _logger(h)
        t = Obj(TR.Transport, name="transport")
        proto = None
        if h.config["state"] != "never-connected":
            proto = Modelled("protocol")
            conn = None
            if h.config["state"] == "connected":
                conn = Modelled("connection")
                conn.attrs["close"] = _fn(log, "close")
            proto.attrs["transport"] = conn
        t.fields.update(protocol=proto, gateway=None, can_log=False, connect_task=None, reconnect_timeout=10.0, timeout=1.0, _connect=None)
        return [t], {}

    raises = {}
    ensures = {
        # a live connection is closed exactly once; in every case the transport forgets its protocol, which is
        # what tells connection_lost that the loss was requested (no reconnect)
        "closes-once-and-forgets": lambda old, self, result: self.protocol is None
        and (calls_are(["close"]) if old.self.protocol is not None and old.self.protocol.transport is not None else calls_are()),
    }


# ------------------------------------------------------------------------------------------- asyncio TCP watchdog
@contract("mysensors.gateway_tcp:AsyncTCPGateway.check_connection", props=["C20"])
class AsyncCheckConnection:
    """what the asyncio flavour does with the watchdog's verdict: a silent link is closed and a reconnect is
    started, each exactly once, and no further check is scheduled on the dead link; a live link gets its next
    check after reconnect_timeout (+0.1 s), cancellable through cancel_check_conn"""

    configs = [{"verdict": "silent"}, {"verdict": "alive"}]

    def setup(h):
        log = _logger(h)
        gw = Obj(GT.AsyncTCPGateway, name="gateway")
        rt = h.sym("real", "reconnect_timeout")
        conn = Modelled("connection")
        conn.attrs["close"] = _fn(log, "close")
        proto = Modelled("protocol")
        proto.attrs.update(transport=conn, conn_lost_callback=_fn(log, "reconnect"))
        tr = Modelled("transport")
        tr.attrs.update(protocol=proto, reconnect_timeout=rt)
        tasks = Modelled("tasks")
        tasks.attrs["transport"] = tr
        handle = Modelled("timer-handle")
        handle.attrs["cancel"] = Opaque("cancel")
        loop = Modelled("loop")
        loop.attrs["call_later"] = ModelFn("call_later", lambda it, a, k: (log.append(("call_later", a[0], a[1])), handle)[1])
        h.it.models[id(asyncio.get_running_loop)] = ModelFn("get_running_loop", lambda it, a, k: loop)
        gw.fields.update(tasks=tasks, cancel_check_conn=None)
        silent = h.config["verdict"] == "silent"

        def base_check(it, a, k):
            log.append(("base-check",))
            if silent:
                raise PyRaise(ExcVal(OSError, ("No response",), site="check_connection"))

        h.it.models[id(GT.BaseTCPGateway.check_connection)] = ModelFn("BaseTCPGateway.check_connection", base_check)
        h.it.env["cancel"] = handle.attrs["cancel"] if not silent else None
        h.it.env["rt"] = rt

        def m_sched(it, a, k):
            names = [e[0] for e in log]
            if silent:
                return names == ["base-check", "close", "reconnect"]
            if names != ["base-check", "call_later"]:
                return False
            delay, fn = log[1][1], log[1][2]
            from pyvc import ops
            from pyvc.values import BoundMethod

            later = isinstance(fn, BoundMethod) and fn.self_val is gw and getattr(fn.func, "__name__", "") == "check_connection"
            return ops.mk("bool", z3.And(z3.BoolVal(later), ops.lift(delay)[1] >= rt.term, ops.lift(delay)[1] <= rt.term + 1))

        h.it.models[id(verdict_acted_on)] = ModelFn("verdict_acted_on", m_sched)
        return [gw], {}

    raises = {}
    ensures = {
        "acts-on-verdict": lambda old, self, result: verdict_acted_on(),
        "cancellable": lambda old, self, result: self.cancel_check_conn is env_cancel(),
    }


def verdict_acted_on():
    return True


def env_cancel():
    return None


# ------------------------------------------------------------------------------------------- inbound MQTT
@contract("mysensors.gateway_mqtt:MQTTTransport.recv", props=["C17", "C19"])
class MqttRecv:
    configs = [{"parsed": True}, {"parsed": False}]

    def setup(h):
        log = _logger(h)
        t = Obj(GM.MQTTTransport, name="mqtt-transport")
        gw = Modelled("gateway")
        line = h.sym("str", "line") if h.config["parsed"] else None
        gw.attrs["parse_mqtt_to_message"] = ModelFn("parse_mqtt_to_message", lambda it, a, k: (log.append(("parse",) + tuple(a)), line)[1])
        logic = Opaque("gateway.logic")
        gw.attrs["logic"] = logic
        tasks = Modelled("tasks")
        tasks.attrs["add_job"] = _fn(log, "add_job")
        gw.attrs["tasks"] = tasks
        t.fields.update(gateway=gw, in_prefix="", out_prefix="", _retain=True, _pub_callback=None, _sub_callback=None, protocol=None, can_log=False)
        h.it.env["line"] = line
        h.it.env["logic"] = logic
        return [t, h.sym("str", "topic"), h.sym("str", "payload"), h.sym("int", "qos")], {}

    raises = {}
    ensures = {
        # an accepted topic becomes exactly one `logic` job carrying the parsed line; a rejected one nothing
        "one-job-per-message": lambda old, self, topic, payload, qos, result: (
            calls_are(["parse", topic, payload, qos], ["add_job", env_logic(), env_line()])
            if env_line() is not None
            else calls_are(["parse", topic, payload, qos])
        ),
    }


def env_line():
    return None


def env_logic():
    return None


def _install_env(cc, names):
    orig = cc.__dict__["setup"]

    def setup(h):
        out = orig(h)
        for fn, key in names:
            h.it.models[id(fn)] = ModelFn(fn.__name__, lambda it, a, k, _k=key: it.env[_k])
        return out

    cc.setup = setup


_install_env(MqttRecv, [(env_line, "line"), (env_logic, "logic")])
_install_env(AsyncCheckConnection, [(env_cancel, "cancel")])
for _c in (SyncUpdateFw, AsyncUpdateFw):
    _install_env(_c, [(env_image, "image")])


# ------------------------------------------------------------------------------------------- start / connect
import threading


def _tasks_start(cls, is_async):
    def setup(h):
        log = _logger(h)
        t = Obj(cls, name="tasks")
        tr = Modelled("transport")
        tr.attrs["connect"] = _fn(log, "connect", awaitable=is_async)
        t.fields.update(persistence=None, transport=tr, queue=None, ota=None, _cancel_save=None)

        def thread_ctor(it, a, k):
            th = Modelled("thread")
            target = k.get("target")
            from pyvc.values import BoundMethod

            pump = isinstance(target, BoundMethod) and target.self_val is t and getattr(target.func, "__name__", "") == "_poll_queue"
            th.attrs["start"] = ModelFn("Thread.start", lambda it2, aa, kk: log.append(("pump-started", pump)))
            return th

        h.it.models[id(threading.Thread)] = ModelFn("threading.Thread", thread_ctor)
        return [t], {}

    # start: the transport is asked to connect, once; the threaded flavour then starts its one pump thread
    # (two lambdas must not share a source line: the engine finds a lambda's AST by its line)
    if is_async:
        ens = {"connect-then-pump": lambda old, self, result: calls_are(["connect"])}
    else:
        ens = {"connect-then-pump": lambda old, self, result: calls_are(["connect"], ["pump-started", True])}
    ns = dict(setup=setup, raises={}, ensures=ens)
    name = f"{cls.__name__}.start"
    return contract(f"mysensors.task:{cls.__name__}.start", props=["C20", "C16"], name=name)(type(name.replace(".", "_"), (), ns))


SyncTasksStart = _tasks_start(T.SyncTasks, False)
AsyncTasksStart = _tasks_start(T.AsyncTasks, True)


def _mqtt_connect(cls):
    def setup(h):
        log = _logger(h)
        t = Obj(cls, name="mqtt-transport")
        gw = Modelled("gateway")
        gw.attrs["init_topics"] = _fn(log, "init_topics")
        t.fields.update(gateway=gw, in_prefix="", out_prefix="", _retain=True, _pub_callback=None, _sub_callback=None, protocol=None, can_log=False)
        return [t], {}

    ns = dict(setup=setup, raises={}, ensures={"subscribes-at-start": lambda old, self, result: calls_are(["init_topics"])})
    name = f"{cls.__name__}.connect"
    return contract(f"mysensors.gateway_mqtt:{cls.__name__}.connect", props=["C17"], name=name)(type(name.replace(".", "_"), (), ns))


MqttSyncConnect = _mqtt_connect(GM.MQTTSyncTransport)
MqttAsyncConnect = _mqtt_connect(GM.MQTTAsyncTransport)


@contract("mysensors.gateway_tcp:TCPTransport.write", props=["C16"])
class TcpWrite:
    """the threaded TCP connection's write: the whole command goes to the socket in one sendall, under the lock"""

    def setup(h):
        log = _logger(h)
        t = Obj(GT.TCPTransport, name="tcp-transport")
        sock = Modelled("socket")
        sock.attrs["sendall"] = _fn(log, "sendall")
        lock = Modelled("Lock")
        lock.attrs.update(__enter__=ModelFn("enter", lambda it, a, k: log.append(("lock",))), __exit__=ModelFn("exit", lambda it, a, k: (log.append(("unlock",)), False)[1]))
        t.fields.update(sock=sock, _lock=lock, protocol=None, alive=True)
        from pyvc.core import BYTES
        from pyvc.values import SeqVal

        return [t, SeqVal("byte", h.ctx.fresh_term(BYTES, "data"), "bytes")], {}

    raises = {}
    ensures = {"one-sendall-under-lock": lambda old, self, data, result: calls_are(["lock"], ["sendall", data], ["unlock"])}


# ------------------------------------------------------------------------------------------- ota.load_fw
def env_decoded():
    return None


@contract("mysensors.ota:load_fw", props=["C09", "C10"])
class LoadFw:
    """`load_fw` around the Intel-HEX library (what the library decodes is T-ihex): the file named by the caller is
    opened once for reading, handed to one fresh `IntelHex` object as format "hex", and the result is that object's
    whole binary image, untouched - or `None` when the file is missing, unreadable or does not decode."""

    configs = [
        {"exists": e, "readable": r, "decode": d}
        for e, r, d in (
            (False, True, "ok"),
            (True, False, "ok"),
            (True, True, "ok"),
            (True, True, "IntelHexError"),
            (True, True, "TypeError"),
            (True, True, "ValueError"),
        )
    ]

    def setup(h):
        import os

        import intelhex

        log = _logger(h)
        c = h.config
        image = Opaque("decoded-image")
        h.it.env["decoded"] = image
        handle = Modelled("handle")
        handle.attrs["__enter__"] = ModelFn("handle.__enter__", lambda it, a, k: handle)
        handle.attrs["__exit__"] = ModelFn("handle.__exit__", lambda it, a, k: (log.append(("close",)), False)[1])
        h.it.env["handle"] = handle
        h.it.env.update(exists=c["exists"], readable=c["readable"], decode_ok=c["decode"] == "ok")

        def m_open(it, a, k):
            mode = a[1] if len(a) > 1 else k.get("mode", "r")
            log.append(("open", a[0], mode))
            return handle

        def m_fromfile(it, a, k):
            fmt = a[1] if len(a) > 1 else k.get("format")
            log.append(("fromfile", a[0], fmt))
            if c["decode"] != "ok":
                cls = {"IntelHexError": intelhex.HexRecordError, "TypeError": TypeError, "ValueError": UnicodeDecodeError}[c["decode"]]
                args = ("utf-8", b"\xff", 0, 1, "invalid start byte") if cls is UnicodeDecodeError else ("bad record",)
                raise PyRaise(ExcVal(cls, args, site="intelhex:fromfile"))
            return None

        def m_intelhex(it, a, k):
            log.append(("IntelHex",) + tuple(a))
            ih = Modelled("intel_hex")
            ih.attrs["fromfile"] = ModelFn("IntelHex.fromfile", m_fromfile)
            ih.attrs["loadhex"] = ModelFn("IntelHex.loadhex", lambda it2, a2, k2: m_fromfile(it2, list(a2) + ["hex"], {}))
            ih.attrs["tobinstr"] = ModelFn("IntelHex.tobinstr", lambda it2, a2, k2: (log.append(("tobinstr",) + tuple(a2) + tuple(sorted(k2))), image)[1])
            return ih

        h.it.models[id(os.path.realpath)] = ModelFn("os.path.realpath", lambda it, a, k: a[0])
        h.it.models[id(os.path.isfile)] = ModelFn("os.path.isfile", lambda it, a, k: c["exists"])
        h.it.models[id(os.access)] = ModelFn("os.access", lambda it, a, k: c["readable"])
        h.it.models[id(open)] = ModelFn("open", m_open)
        h.it.models[id(OTA.IntelHex)] = ModelFn("IntelHex", m_intelhex)
        return ["firmware.hex"], {}

    raises = {}

    def _ok(old, path, result):
        if not (env_exists() and env_readable()):
            return result is None and calls_are()
        if env_decode_ok():
            return result is env_decoded() and calls_are(
                ["IntelHex"], ["open", path, "r"], ["fromfile", env_handle(), "hex"], ["close"], ["tobinstr"]
            )
        return result is None

    ensures = {"whole-decoded-image-or-none": _ok}


def env_exists():
    return True


def env_readable():
    return True


def env_decode_ok():
    return True


def env_handle():
    return None


_install_env(LoadFw, [(env_decoded, "decoded"), (env_handle, "handle"), (env_exists, "exists"), (env_readable, "readable"), (env_decode_ok, "decode_ok")])
