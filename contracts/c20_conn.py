"""C20 - connections are supervised and the callbacks are exact (per-call contracts, behavioural subtyping
of the three connection_lost overrides, connect loops per iteration, the TCP watchdog in linear arithmetic)."""
import z3

from mysensors import gateway_serial as GS
from mysensors import gateway_tcp as GT
from mysensors import transport as TR
from pyvc.contract import Loop, contract
from pyvc.core import ExcVal, PyRaise
from pyvc.values import ModelFn, Modelled, Obj, Opaque

CAUSES = ("error", "user-close", "peer-eof")


def _gateway(log, with_callbacks=True):
    gw = Modelled("gateway")
    if with_callbacks:
        gw.attrs["on_conn_made"] = ModelFn("on_conn_made", lambda it, a, k: log.append(("on_conn_made", a[0] is gw)))
        gw.attrs["on_conn_lost"] = ModelFn("on_conn_lost", lambda it, a, k: log.append(("on_conn_lost", a[0] is gw, a[1])))
    else:
        gw.attrs["on_conn_made"] = None
        gw.attrs["on_conn_lost"] = None
    gw.attrs["cancel_check_conn"] = ModelFn("cancel_check_conn", lambda it, a, k: log.append(("cancel-check",)))
    return gw


def _proto(h, cls):
    log = []
    h.ctx.ghost["connlog"] = log
    gw = _gateway(log, h.config.get("callbacks", True))
    p = Obj(cls, name="protocol")
    conn = Modelled("connection")
    ser = Modelled("serial")
    ser.attrs["close"] = ModelFn("serial.close", lambda it, a, k: log.append(("serial-close",)))
    conn.attrs["serial"] = ser
    p.fields.update(
        gateway=gw,
        transport=conn,
        buffer=None,
        conn_lost_callback=ModelFn("conn_lost_callback", lambda it, a, k: log.append(("reconnect",))),
    )
    h.it.env["gw"] = gw
    h.it.env["conn"] = conn
    return p, log


def _exc(cause):
    return ExcVal(OSError, ("link down",), site="io") if cause == "error" else None


def _install_checks(h, log, flavour):
    c = h.config

    def m_lost_ok(it, a, k):
        exc = a[0]
        lost = [e for e in log if e[0] == "on_conn_lost"]
        want = 1 if c.get("callbacks", True) else 0
        if len(lost) != want:
            return False
        if lost and not (lost[0][1] and lost[0][2] is exc):
            return False
        return True

    def m_reconnect_ok(it, a, k):
        n = len([e for e in log if e[0] == "reconnect"])
        # a reconnect attempt follows every loss that the user did not request
        return n == (0 if c["cause"] == "user-close" else 1)

    h.it.models[id(lost_callback_exactly_once)] = ModelFn("lost_callback_exactly_once", m_lost_ok)
    h.it.models[id(reconnect_iff_not_requested)] = ModelFn("reconnect_iff_not_requested", m_reconnect_ok)
    h.it.models[id(made_callback_exactly_once)] = ModelFn(
        "made_callback_exactly_once",
        lambda it, a, k: [e for e in log if e[0] == "on_conn_made"] == ([("on_conn_made", True)] if c.get("callbacks", True) else []),
    )


def lost_callback_exactly_once(exc):
    return True


def reconnect_iff_not_requested():
    return True


def made_callback_exactly_once():
    return True


def _lost_contract(target, cls, causes, name):
    def setup(h):
        p, log = _proto(h, cls)
        _install_checks(h, log, name)
        return [p, _exc(h.config["cause"])], {}

    ns = dict(
        configs=[{"cause": c, "callbacks": cb} for c in causes for cb in (True, False)],
        setup=setup,
        raises={},
        ensures={
            # the connection-lost callback fires exactly once per lost connection, with the gateway and the cause
            "callback-once": lambda old, self, exc, result: lost_callback_exactly_once(exc),
            # a reconnect attempt follows every loss that the user did not request, and only those
            "reconnect": lambda old, self, exc, result: reconnect_iff_not_requested(),
            "connection-forgotten": lambda old, self, exc, result: self.transport is None,
        },
    )
    cc = type(name, (), ns)
    return contract(target, props=["C20"], name=name)(cc)


# the shared hook and the three overrides must satisfy the same contract (behavioural subtyping).
# Threaded flavours: ReaderThread reports exc=None only after a local close() (T-serial), so
# "peer-eof" exists only for the asyncio protocols, where EOF from the peer arrives as exc=None.
LostShared = _lost_contract("mysensors.transport:BaseMySensorsProtocol._connection_lost", TR.BaseMySensorsProtocol, ("error", "user-close"), "_connection_lost")
LostSerialSync = _lost_contract("mysensors.transport:BaseMySensorsProtocol.connection_lost", TR.BaseMySensorsProtocol, ("error", "user-close"), "connection_lost[threaded]")
LostSerialAsync = _lost_contract("mysensors.transport:AsyncMySensorsProtocol.connection_lost", TR.AsyncMySensorsProtocol, CAUSES, "connection_lost[async-serial]")
LostTcpAsync = _lost_contract("mysensors.gateway_tcp:AsyncTCPMySensorsProtocol.connection_lost", GT.AsyncTCPMySensorsProtocol, CAUSES, "connection_lost[async-tcp]")


@contract("mysensors.transport:BaseMySensorsProtocol.connection_made", props=["C20"])
class ConnectionMade:
    configs = [{"callbacks": cb, "cause": "error"} for cb in (True, False)]
    extra_roots = []

    def setup(h):
        import os
        import serial.threaded as ST

        h.it.roots.append(os.path.dirname(os.path.realpath(ST.__file__)))
        p, log = _proto(h, TR.BaseMySensorsProtocol)
        p.fields["transport"] = None
        _install_checks(h, log, "made")
        return [p, h.it.env["conn"]], {}

    raises = {}
    ensures = {
        "callback-once": lambda old, self, transport, result: made_callback_exactly_once(),
        "connection-remembered": lambda old, self, transport, result: self.transport is transport,
    }


# ------------------------------------------------------------------------------------------- TCP watchdog
def _tcp_gateway(h):
    from mysensors import const as C

    log = []
    h.ctx.ghost["jobs"] = log
    gw = Obj(GT.BaseTCPGateway, name="tcp-gateway")
    tr = Modelled("transport")
    rt = h.sym("real", "reconnect_timeout")
    h.ctx.add_fact(rt.term > 0)
    tr.attrs["reconnect_timeout"] = rt
    tasks = Modelled("tasks")
    tasks.attrs["transport"] = tr
    tasks.attrs["add_job"] = ModelFn("add_job", lambda it, a, k: log.append(a[0]))
    gw.fields.update(
        tasks=tasks,
        tcp_check_timer=h.sym("real", "check_timer"),
        tcp_disconnect_timer=h.sym("real", "disconnect_timer"),
        server_address=("host", 5003),
        const=C.get_const("2.0"),
    )
    h.it.env["rt"] = rt
    return gw, log


@contract("mysensors.gateway_tcp:BaseTCPGateway.check_connection", props=["C20"])
class CheckConnection:
    def setup(h):
        gw, log = _tcp_gateway(h)
        h.ctx.ghost["__clock"] = h.sym("real", "t0")

        def m_probe(it, a, k):
            return len(log) == a[0]

        h.it.models[id(probes_queued)] = ModelFn("probes_queued", m_probe)
        return [gw], {}

    def requires(self):
        # timers were stamped in the past
        return self.tcp_check_timer <= clock0() and self.tcp_disconnect_timer <= clock0()

    # the link is dropped (OSError -> connection_lost -> reconnect) exactly when no answer came for 2x the timeout
    raises = {OSError: lambda old, self: old.self.tcp_disconnect_timer + 2 * rt() < clock_first()}

    ensures = {
        "not-dropped-while-answered": lambda old, self, result: not (old.self.tcp_disconnect_timer + 2 * rt() < clock_first()),
        # a probe is sent once per reconnect_timeout, and the probe timer restarts then
        "probe": lambda old, self, result: (
            (old.self.tcp_check_timer + rt() >= clock_second() and probes_queued(0) and self.tcp_check_timer == old.self.tcp_check_timer)
            or (old.self.tcp_check_timer + rt() < clock_second() and probes_queued(1) and self.tcp_check_timer >= clock_second())
        ),
        "answer-timer-untouched": lambda old, self, result: self.tcp_disconnect_timer == old.self.tcp_disconnect_timer,
    }


def clock0():
    return 0.0


def clock_first():
    return 0.0


def clock_second():
    return 0.0


def rt():
    return 10.0


def probes_queued(n):
    return True


_cc = CheckConnection.__dict__["setup"]


def _cc_setup(h):
    args = _cc(h)
    import time as _t

    reads = []

    def m_time(it, a, k):
        t = it.ctx.fresh("real", "now")
        last = it.ctx.ghost.get("__clock")
        it.ctx.add_fact(t.term >= last.term)
        it.ctx.ghost["__clock"] = t
        reads.append(t)
        return t

    t0 = h.ctx.ghost["__clock"]
    h.it.models[id(_t.time)] = ModelFn("time.time", m_time)
    h.it.models[id(clock0)] = ModelFn("clock0", lambda it, a, k: t0)
    h.it.models[id(clock_first)] = ModelFn("clock_first", lambda it, a, k: reads[0])
    h.it.models[id(clock_second)] = ModelFn("clock_second", lambda it, a, k: reads[1] if len(reads) > 1 else reads[0])
    h.it.models[id(rt)] = ModelFn("rt", lambda it, a, k: it.env["rt"])
    return args


CheckConnection.setup = _cc_setup


@contract("mysensors.gateway_tcp:BaseTCPGateway._handle_i_version", props=["C20"])
class HandleIVersion:
    def setup(h):
        gw, log = _tcp_gateway(h)
        h.ctx.ghost["__clock"] = h.sym("real", "t0")
        h.ctx.add_fact(gw.fields["tcp_disconnect_timer"].term <= h.ctx.ghost["__clock"].term)
        return [gw, Opaque("msg")], {}

    raises = {}
    ensures = {
        # every answer to a version probe restarts the silence timer
        "answer-stamps-timer": lambda old, self, msg, result: result is None
        and self.tcp_disconnect_timer >= old.self.tcp_disconnect_timer
        and self.tcp_check_timer == old.self.tcp_check_timer,
    }


# ------------------------------------------------------------------------------------------- connect loops
import asyncio
import socket
import time as _time

import serial
import serial.threaded
import serial_asyncio


def _connect_env(h, kind):
    """transport + models of the connection primitives; every primitive logs what it did"""
    it, ctx = h.it, h.ctx
    log = []
    ctx.ghost["connectlog"] = log
    rt = h.sym("real", "reconnect_timeout")
    gw = Modelled("gateway")
    gw.attrs.update(port="/dev/ttyUSB0", baud=115200, server_address=("host", 5003), tcp_check_timer=0.0, tcp_disconnect_timer=0.0)
    gw.attrs["check_connection"] = ModelFn("check_connection", lambda it2, a, k: log.append(("check_connection",)))
    tr = Modelled("transport")
    tr.attrs.update(protocol=Opaque("protocol"), gateway=gw, timeout=1.0, reconnect_timeout=rt)

    def attempt(outcomes):
        def fn(it2, a, k):
            kk = it2.ctx.choose([z3.BoolVal(True)] * len(outcomes), labels=[o[0] for o in outcomes], site="connect-attempt")
            name, exc = outcomes[kk]
            log.append(("attempt", name))
            if exc is not None:
                raise PyRaise(ExcVal(exc, (name,), site="connect-attempt"))
            return Modelled("socket-or-port")

        return fn

    def reader(it2, a, k):
        r = Modelled("reader-thread")
        r.attrs.update(
            daemon=True,
            start=ModelFn("start", lambda it3, aa, kk: log.append(("start",))),
            connect=ModelFn("connect", lambda it3, aa, kk: log.append(("connect",))),
        )
        return r

    def sleep(it2, a, k):
        log.append(("sleep", a[0]))
        return None

    clock = []  # (position in the log, term) of every clock read

    def now(it2, a, k):
        t = it2.ctx.fresh("real", "now")
        if clock:
            it2.ctx.add_fact(t.term >= clock[-1][1].term)
        clock.append((len(log), t))
        return t

    it.models[id(_time.time)] = ModelFn("time.time", now)
    it.models[id(_time.sleep)] = ModelFn("time.sleep", sleep)
    it.models[id(serial.serial_for_url)] = ModelFn("serial_for_url", attempt([("ok", None), ("serial-error", serial.SerialException)]))
    it.models[id(socket.create_connection)] = ModelFn(
        "create_connection", attempt([("ok", None), ("timeout", socket.timeout), ("oserror", OSError)])
    )
    it.models[id(serial.threaded.ReaderThread)] = ModelFn("ReaderThread", reader)
    it.models[id(GT.TCPTransport)] = ModelFn("TCPTransport", reader)

    from pyvc.values import Awaitable

    def aio_attempt(outcomes):
        def fn(it2, a, k):
            return Awaitable(lambda it3: attempt(outcomes)(it3, a, k), "connect")

        return fn

    it.models[id(serial_asyncio.create_serial_connection)] = ModelFn(
        "create_serial_connection", aio_attempt([("ok", None), ("serial-error", serial.SerialException), ("cancelled", asyncio.CancelledError)])
    )
    it.models[id(asyncio.wait_for)] = ModelFn(
        "wait_for", aio_attempt([("ok", None), ("timeout", asyncio.TimeoutError), ("oserror", OSError), ("cancelled", asyncio.CancelledError)])
    )

    def aio_sleep(it2, a, k):
        def on_await(it3):
            kk = it3.ctx.choose([z3.BoolVal(True), z3.BoolVal(True)], labels=["slept", "cancelled"], site="asyncio.sleep")
            if kk == 1:
                log.append(("cancelled-in-sleep",))
                raise PyRaise(ExcVal(asyncio.CancelledError, (), site="asyncio.sleep"))
            log.append(("sleep", a[0]))
            return None

        return Awaitable(on_await, "sleep")

    it.models[id(asyncio.sleep)] = ModelFn("asyncio.sleep", aio_sleep)
    loop = Modelled("loop")
    loop.attrs["create_connection"] = ModelFn("loop.create_connection", lambda it2, a, k: Opaque("pending-connection"))
    it.models[id(asyncio.get_running_loop)] = ModelFn("get_running_loop", lambda it2, a, k: loop)
    state = {"n": 0}

    def boundary(it2, a, k):
        """loop head: what one (failed) iteration did = one attempt, then exactly one sleep of reconnect_timeout.
        Rely of the threaded loops: while the loop sleeps, the user's thread may call stop()/disconnect(), which
        clears `transport.protocol` - the only signal the loop gets.  At the arbitrary loop head either nothing
        happened or that did; after it the log must stay as it is: no attempt, no reader, no callback."""
        state["n"] += 1
        if state["n"] <= 2:
            del log[:]
            if state["n"] == 2 and kind.startswith("sync"):
                kk = it2.ctx.choose([z3.BoolVal(True), z3.BoolVal(True)], labels=["running", "stopped-during-sleep"], site="user-stop")
                if kk == 1:
                    tr.attrs["protocol"] = None
                    state["stopped"] = True
                    log.append(("stopped",))
            return True
        if state.get("stopped"):
            return False  # an iteration was run although the user had stopped the gateway
        if [e[0] for e in log] != ["attempt", "sleep"]:
            return False
        if log[0][1] == "ok":
            return False
        return log[1][1] is rt

    def success(it2, a, k):
        """function exit: a successful attempt, the reader started and connected exactly once"""
        names = [e[0] for e in log]
        if state.get("stopped"):
            return names == ["stopped"]  # nothing at all after the user's stop
        if kind.startswith("async"):
            want = ["attempt"] + (["check_connection"] if kind == "async-tcp" else [])
        else:
            want = ["attempt", "start", "connect"]
        if not (names == want and log[0][1] == "ok"):
            return False
        if kind.endswith("tcp"):
            # a new link starts with both watchdog timers stamped after the link came up (the silence of the
            # previous link, or of the time spent dialling, must not count against the new one)
            after = [t for pos, t in clock if pos >= 1]
            for name in ("tcp_check_timer", "tcp_disconnect_timer"):
                v = gw.attrs.get(name)
                if not any(v is t for t in after):
                    return False
        return True

    it.models[id(iteration_is_attempt_then_sleep)] = ModelFn("iteration_is_attempt_then_sleep", boundary)
    it.models[id(connected_once)] = ModelFn("connected_once", success)
    return tr


def iteration_is_attempt_then_sleep():
    return True


def connected_once():
    return True


def _loop_contract(mod, qual):
    return {(mod, qual, 0): Loop(lambda L, old, G: iteration_is_attempt_then_sleep())}


def _connect_contract(target, mod, qual, kind, cancel_ok):
    raises = {asyncio.CancelledError: True} if cancel_ok else {}
    ns = dict(
        loops=_loop_contract(mod, qual),
        setup=lambda h: ([_connect_env(h, kind)], {}),
        raises=raises,  # only cancellation ends the asyncio loops; nothing ends the threaded ones but success
        # returns only connected (once) - or, for the threaded loops, because the user stopped the gateway, and then
        # without any further attempt, reader thread or callback
        ensures={"connected": lambda old, transport, result: connected_once()},
    )
    return contract(target, props=["C20"], name=f"{kind}_connect")(type(kind.replace("-", "_") + "_connect", (), ns))


SyncSerialConnect = _connect_contract("mysensors.gateway_serial:sync_connect", "mysensors.gateway_serial", "sync_connect", "sync-serial", False)
SyncTcpConnect = _connect_contract("mysensors.gateway_tcp:sync_connect", "mysensors.gateway_tcp", "sync_connect", "sync-tcp", False)
AsyncSerialConnect = _connect_contract("mysensors.gateway_serial:async_connect", "mysensors.gateway_serial", "async_connect", "async-serial", True)
AsyncTcpConnect = _connect_contract("mysensors.gateway_tcp:async_connect", "mysensors.gateway_tcp", "async_connect", "async-tcp", True)


# ------------------------------------------------------------------------------------------- watchdog schedule
def _watchdog_two_probes(gw):
    """connect; the reader loop calls check_connection on every iteration; two probes, each answered within
    reconnect_timeout; a further iteration falls between the deadline and the second answer"""
    gw.check_connection()  # iteration 1: sends probe 1
    gw._handle_i_version(None)  # answer to probe 1 (arrives within reconnect_timeout)
    gw.check_connection()  # iteration 2: sends probe 2
    gw.check_connection()  # iteration 3: before the answer to probe 2 has arrived
    gw._handle_i_version(None)  # answer to probe 2 (also within reconnect_timeout)
    return gw


@contract("mysensors.gateway_tcp:BaseTCPGateway.check_connection", props=["C20"], name="watchdog.answered-link-not-dropped")
class WatchdogAnswered:
    """A link whose gateway answers every version probe within the reconnect timeout is never dropped -
    checked on the real check_connection/_handle_i_version over a symbolic clock (threaded flavour: the
    reader loop calls check_connection every iteration)."""

    lemma = True
    params = ["gw"]
    body = _watchdog_two_probes

    def setup(h):
        import time as _t

        gw, log = _tcp_gateway(h)
        ctx = h.ctx
        rt = h.it.env["rt"].term
        t0 = ctx.fresh_term(z3.RealSort(), "t_connect")
        gw.fields["tcp_check_timer"] = ops_mk_real(t0)
        gw.fields["tcp_disconnect_timer"] = ops_mk_real(t0)
        # the scripted clock: times of the events in order (each event may read the clock several times;
        # all reads within one event return that event's time)
        names = ["iter1", "answer1", "iter2", "iter3", "answer2"]
        times = [ctx.fresh_term(z3.RealSort(), "t_" + n) for n in names]
        delta = ctx.fresh_term(z3.RealSort(), "loop_period")
        ctx.add_fact(z3.And(delta > 0, delta < rt))
        ctx.add_fact(times[0] > t0 + rt)  # first iteration at which a probe is due ...
        ctx.add_fact(times[0] <= t0 + rt + delta)  # ... which the loop reaches within one period
        ctx.add_fact(times[2] <= times[0] + rt + delta)
        for a, b in zip(times, times[1:]):
            ctx.add_fact(a <= b)
        # every probe is answered within the reconnect timeout of being sent
        ctx.add_fact(times[1] - times[0] <= rt)
        ctx.add_fact(times[4] - times[2] <= rt)
        ctx.add_fact(times[2] > times[0] + rt)  # probe 2 is due at iteration 2
        state = {"event": 0, "reads": 0}
        h.it.env["times"] = times

        def m_time(it, a, k):
            return ops_mk_real(times[state["event"]])

        h.it.models[id(_t.time)] = ModelFn("time.time", m_time)

        def after(it, args, rv):
            state["event"] += 1

        h.it.post_hooks[("mysensors.gateway_tcp", "BaseTCPGateway.check_connection")] = after
        h.it.post_hooks[("mysensors.gateway_tcp", "BaseTCPGateway._handle_i_version")] = after
        return [gw], {}

    raises = {}  # no OSError: the link is not dropped
    ensures = {"alive": lambda old, gw, result: True}


def ops_mk_real(t):
    from pyvc.core import SV

    return SV("real", t)


# ------------------------------------------------------------------------------------------- the reconnect hooks
# The protocol contracts above treat `conn_lost_callback` as "start a reconnect"; these two contracts are on
# the real callbacks the transports install there, in every state the transport can be in when a loss is
# reported: never lost before, or already reconnected once (an earlier reconnect task/thread exists).
def _lose(tr):
    tr.protocol.conn_lost_callback()
    return tr


def reconnect_started_once():
    return True


def _reconnect_env(h, cls):
    it = h.it
    log = []
    h.ctx.ghost["reconnectlog"] = log
    gw = Modelled("gateway")
    connect_fn = ModelFn("gateway-connect", lambda it2, a, k: log.append(("connect-ran", a[0])))

    class _Proto:  # stands for the protocol object the transport creates; records the callback it was given
        pass

    def proto_ctor(it2, a, k):
        p = Modelled("protocol")
        p.attrs.update(gateway=a[0], conn_lost_callback=a[1], transport=None)
        return p

    it.models[id(TR.BaseMySensorsProtocol)] = ModelFn("BaseMySensorsProtocol", proto_ctor)
    it.models[id(TR.AsyncMySensorsProtocol)] = ModelFn("AsyncMySensorsProtocol", proto_ctor)

    def thread_ctor(it2, a, k):
        t = Modelled("thread")
        target, targs = k.get("target"), k.get("args", ())

        def start(it3, aa, kk):
            log.append(("started",))
            it3.call(target, list(targs), {})  # what the thread then runs

        t.attrs["start"] = ModelFn("Thread.start", start)
        return t

    it.models[id(threading.Thread)] = ModelFn("threading.Thread", thread_ctor)
    loop = Modelled("loop")

    tasks, done_cbs = [], []

    def create_task(it2, a, k):
        log.append(("started",))
        it2.run_coro(a[0])  # what the task then runs
        t = Modelled("task")
        t.attrs["add_done_callback"] = ModelFn("task.add_done_callback", lambda it3, aa, kk, _t=t: done_cbs.append((_t, aa[0])))
        t.attrs["cancelled"] = ModelFn("task.cancelled", lambda it3, aa, kk: False)
        t.attrs["done"] = ModelFn("task.done", lambda it3, aa, kk: True)
        tasks.append(t)
        return t

    loop.attrs["create_task"] = ModelFn("loop.create_task", create_task)
    it.models[id(asyncio.get_running_loop)] = ModelFn("get_running_loop", lambda it2, a, k: loop)
    tr = it.call(cls, [gw, connect_fn], {})
    for _ in range(h.config["earlier_losses"]):
        it.call(it.getattr(it.getattr(tr, "protocol"), "conn_lost_callback"), [], {})
    del log[:]

    def ok(it2, a, k):
        return log == [("started",), ("connect-ran", tr)]

    n_before = len(tasks)

    def tracked(it2, a, k):
        """asyncio flavour: stop() can only cancel the reconnect it can find, `transport.connect_task`.  The event loop
        runs a finished task's done-callbacks in a later iteration, so callbacks registered on the tasks of EARLIER
        losses may fire after the hook has run for this loss: let them, then the tracked task must be this loss's."""
        if cls is not TR.AsyncTransport:
            return True
        if len(tasks) != n_before + 1:
            return False
        current = tasks[-1]
        for t, cb in list(done_cbs):
            if t is not current:
                it2.call(cb, [t], {})
        return tr.fields.get("connect_task") is current

    it.models[id(reconnect_started_once)] = ModelFn("reconnect_started_once", ok)
    it.models[id(latest_reconnect_is_tracked)] = ModelFn("latest_reconnect_is_tracked", tracked)
    return tr


def latest_reconnect_is_tracked():
    return True


import threading


def _reconnect_contract(cls, name):
    ns = dict(
        lemma=True,
        params=["tr"],
        body=_lose,
        configs=[{"earlier_losses": n} for n in (0, 1, 2)],
        setup=lambda h: ([_reconnect_env(h, cls)], {}),
        raises={},
        # every reported loss starts exactly one reconnect, which runs the gateway's connect routine on this transport
        ensures={
            "reconnect-started": lambda old, tr, result: reconnect_started_once(),
            # ... and (asyncio) it is the one stop() will find and cancel, whatever late done-callbacks of the
            # reconnects of earlier losses do: "after stop() there are no further reconnect attempts"
            "reconnect-tracked": lambda old, tr, result: latest_reconnect_is_tracked(),
        },
    )
    target = f"mysensors.transport:{cls.__name__}.__init__"
    return contract(target, props=["C20"], name=name)(type(name.replace("[", "_").replace("]", "").replace("-", "_"), (), ns))


ReconnectSync = _reconnect_contract(TR.SyncTransport, "reconnect-hook[threaded]")
ReconnectAsync = _reconnect_contract(TR.AsyncTransport, "reconnect-hook[async]")


# ------------------------------------------------------------------------------------------- watchdog, with slack
# F20w shows that "answered within the reconnect timeout" alone does not keep a link: the deadline is counted
# from the previous answer.  What the code does guarantee is proved here as an inductive invariant over the two
# events of a link's life - a reader-loop iteration (check_connection) and the arrival of an answer
# (_handle_i_version) - under a stated slack: every probe is answered within L, iterations are at most dl apart,
# and L + dl <= reconnect_timeout.  Then no iteration ever drops the link.
#   c = tcp_check_timer (time of the last probe, or of the connect), d = tcp_disconnect_timer (last answer, or
#   connect), ghosts: cp = time of the probe before the last one, o = the last probe is still unanswered,
#   last = time of the latest iteration, now = time of the latest event.
def winv(c, d, cp, o, last, now, L, dl, rt):
    return (
        cp <= c
        and c <= last
        and last <= now
        and d <= now
        and last <= c + rt  # no probe was overdue at the latest iteration
        and c - cp <= rt + dl  # probes are at most one timeout and one loop period apart
        and (o or d >= c)  # an answered probe was answered after it was sent
        and (not o or (d >= cp and now <= c + L))  # an unanswered one is younger than L, its predecessor was answered
    )


def _w_iteration(gw):
    gw.check_connection()
    return gw


def _w_answer(gw):
    gw._handle_i_version(None)
    return gw


def _w_setup(kind):
    def setup(h):
        import time as _t

        gw, log = _tcp_gateway(h)
        ctx = h.ctx
        env = h.it.env
        for nm in ("cp", "last", "now", "L", "dl", "t"):
            env[nm] = h.sym("real", nm)
        env["o"] = h.sym("bool", "outstanding")
        env["c0"], env["d0"] = gw.fields["tcp_check_timer"], gw.fields["tcp_disconnect_timer"]
        ctx.add_fact(z3.And(env["L"].term >= 0, env["dl"].term > 0, env["L"].term + env["dl"].term <= env["rt"].term))
        h.it.models[id(_t.time)] = ModelFn("time.time", lambda it, a, k: env["t"])
        env["log"] = log
        for fn, key in ((w_c0, "c0"), (w_d0, "d0"), (w_cp, "cp"), (w_o, "o"), (w_last, "last"), (w_now, "now"), (w_L, "L"), (w_dl, "dl"), (w_rt, "rt"), (w_t, "t")):
            h.it.models[id(fn)] = ModelFn(fn.__name__, lambda it, a, k, _k=key: env[_k])
        h.it.models[id(w_probe_sent)] = ModelFn("w_probe_sent", lambda it, a, k: len(log) == 1)
        return [gw], {}

    return setup


def w_c0():
    return 0.0


def w_d0():
    return 0.0


def w_cp():
    return 0.0


def w_o():
    return False


def w_last():
    return 0.0


def w_now():
    return 0.0


def w_L():
    return 0.0


def w_dl():
    return 0.0


def w_rt():
    return 0.0


def w_t():
    return 0.0


def w_probe_sent():
    return False


@contract("mysensors.gateway_tcp:BaseTCPGateway.check_connection", props=["C20"], name="watchdog.slack.iteration")
class WatchdogSlackIteration:
    """one reader-loop iteration at time t (at most dl after the previous one; if a probe is outstanding, its
    answer is not overdue yet): the link is not dropped and the invariant holds again"""

    lemma = True
    params = ["gw"]
    body = _w_iteration
    setup = _w_setup("iteration")

    def requires(gw):
        return (
            winv(w_c0(), w_d0(), w_cp(), w_o(), w_last(), w_now(), w_L(), w_dl(), w_rt())
            and w_now() <= w_t()
            and w_t() <= w_last() + w_dl()
            and (not w_o() or w_t() <= w_c0() + w_L())
        )

    raises = {}  # no OSError: the link is not dropped
    ensures = {
        "invariant-kept": lambda old, gw, result: (
            winv(gw.tcp_check_timer, gw.tcp_disconnect_timer, w_c0(), True, w_t(), w_t(), w_L(), w_dl(), w_rt())
            if w_probe_sent()
            else winv(gw.tcp_check_timer, gw.tcp_disconnect_timer, w_cp(), w_o(), w_t(), w_t(), w_L(), w_dl(), w_rt())
        ),
        # a probe goes out exactly when one is due, and never while the previous one is unanswered
        "probe-when-due": lambda old, gw, result: w_probe_sent() == (w_c0() + w_rt() < w_t()) and (not w_probe_sent() or not w_o()),
    }


@contract("mysensors.gateway_tcp:BaseTCPGateway._handle_i_version", props=["C20"], name="watchdog.slack.answer")
class WatchdogSlackAnswer:
    """the answer to the outstanding probe arrives at time t (within L of the probe): the invariant holds again,
    with no probe outstanding"""

    lemma = True
    params = ["gw"]
    body = _w_answer
    setup = _w_setup("answer")

    def requires(gw):
        return (
            winv(w_c0(), w_d0(), w_cp(), w_o(), w_last(), w_now(), w_L(), w_dl(), w_rt())
            and w_o()
            and w_now() <= w_t()
            and w_t() <= w_c0() + w_L()
        )

    raises = {}
    ensures = {
        "invariant-kept": lambda old, gw, result: winv(
            gw.tcp_check_timer, gw.tcp_disconnect_timer, w_cp(), False, w_last(), w_t(), w_L(), w_dl(), w_rt()
        ),
    }


def _w_nothing(t1, t2):
    return (t1, t2)


@contract("mysensors.gateway_tcp:sync_connect", props=["C20"], name="watchdog.slack.initial")
class WatchdogSlackInitial:
    """the state the connect contracts establish - both timers stamped with clock reads t1 <= t2 taken after the
    link came up, no probe sent yet - satisfies the invariant (with the first iteration counted from t2)"""

    lemma = True
    params = ["t1", "t2"]
    body = _w_nothing

    def setup(h):
        env = h.it.env
        for nm in ("L", "dl", "rt"):
            env[nm] = h.sym("real", nm)
        h.ctx.add_fact(z3.And(env["rt"].term > 0, env["L"].term >= 0, env["dl"].term > 0, env["L"].term + env["dl"].term <= env["rt"].term))
        for fn, key in ((w_L, "L"), (w_dl, "dl"), (w_rt, "rt")):
            h.it.models[id(fn)] = ModelFn(fn.__name__, lambda it, a, k, _k=key: env[_k])
        return [h.sym("real", "t1"), h.sym("real", "t2")], {}

    def requires(t1, t2):
        # (the two stamps are consecutive statements: less than a timeout apart)
        return t1 <= t2 and t2 <= t1 + w_rt()

    raises = {}
    ensures = {"invariant-established": lambda old, t1, t2, result: winv(t1, t2, t1, False, t2, t2, w_L(), w_dl(), w_rt())}
