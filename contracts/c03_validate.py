"""C03 - Message.validate accepts exactly api.valid, per version and header cell.

The header cell (command, sub-type) is enumerated completely (commands -1..5, sub-types -1..max+2);
node id, child id, ack and the payload stay symbolic."""
import voluptuous as vol

from pyvc.contract import contract
from pyvc.values import Obj
from spec import api

from .state import VERSIONS


def _cells(tier):
    out = []
    for v in VERSIONS:
        for cmd in range(-1, 6):
            mx = api.MAX_SUB[v].get(cmd, 3)
            for sub in range(-1, mx + 3):
                out.append({"version": v, "cmd": cmd, "sub": sub})
    return out


@contract("mysensors.message:Message.validate", props=["C03"])
class Validate:
    configs = _cells

    def setup(h):
        from mysensors.message import Message

        c = h.config
        m = Obj(Message, name="msg")
        m.fields.update(
            node_id=h.sym("int", "node_id"),
            child_id=h.sym("int", "child_id"),
            type=c["cmd"],
            ack=h.sym("int", "ack"),
            sub_type=c["sub"],
            payload=h.sym("str", "payload"),
            gateway=None,
        )
        return [m, c["version"]], {}

    raises = {
        # too-strict: a rejected message is one the API does not allow
        vol.Invalid: lambda old, self, protocol_version: not api.valid(
            protocol_version, self.node_id, self.child_id, self.type, self.ack, self.sub_type, self.payload
        )
    }

    ensures = {
        # too-lax: an accepted message is valid for the version
        "accepted-is-valid": lambda old, self, protocol_version, result: api.valid(
            protocol_version, self.node_id, self.child_id, self.type, self.ack, self.sub_type, self.payload
        ),
        "message-untouched": lambda old, self, protocol_version, result: (
            self.node_id == old.self.node_id
            and self.child_id == old.self.child_id
            and self.type == old.self.type
            and self.ack == old.self.ack
            and self.sub_type == old.self.sub_type
            and self.payload == old.self.payload
        ),
    }
