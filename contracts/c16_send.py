"""C16 - sending races safely with connection loss and shutdown (rely/guarantee on Transport.send).

Shared locations: transport.protocol (cleared by disconnect()/stop() in another thread) and
protocol.transport (cleared by _connection_lost in the reader thread, replaced by connection_made).
Every *read* of a shared location is a fresh read under the rely: between two reads any number of
those environment steps may have happened.  A local snapshot is stable; a re-read is not."""
import z3

from mysensors import transport as TR
from pyvc.contract import contract
from pyvc.core import ExcVal, PyRaise
from pyvc.values import ModelFn, Modelled, Obj, Opaque, VolatileField


def _conn(log, name, it):
    """a connection object (serial.threaded.ReaderThread / asyncio transport): write either completes or
    raises OSError (T-serial); close is idempotent"""
    c = Modelled(name)
    state = {"open": True}

    def write(it2, a, k):
        # a failing write raises OSError - or one of the subclasses the connection types really raise (pyserial's write
        # timeout, a port that was closed meanwhile, a reset by the peer): a handler that singles one of them out
        # is a path of its own
        import serial

        errors = [OSError, serial.SerialException, serial.SerialTimeoutException, serial.PortNotOpenError, ConnectionResetError, TimeoutError]
        kk = it2.ctx.choose([z3.BoolVal(True)] * (1 + len(errors)), labels=["write-ok"] + ["write-" + c_.__name__ for c_ in errors], site="conn.write")
        log.append(("write", name, a[0], state["open"]))
        if kk >= 1:
            cls_ = errors[kk - 1]
            raise PyRaise(ExcVal(cls_, () if cls_ is serial.PortNotOpenError else ("write failed",), site="conn.write"))
        return None

    def close(it2, a, k):
        state["open"] = False
        log.append(("close", name))
        return None

    c.attrs.update(write=ModelFn("conn.write", write), close=ModelFn("conn.close", close), serial=Opaque("serial"))
    c.state = state
    return c


def _setup(cls):
    def setup(h):
        it, ctx = h.it, h.ctx
        log = []
        ctx.ghost["iolog"] = log
        c = h.config
        conns = [_conn(log, "conn0", it)]
        proto = Obj(TR.BaseMySensorsProtocol, name="protocol")
        cur = {"transport": conns[0] if c["connected"] else None, "protocol": proto}

        def read_transport(it2):
            # rely: the reader thread may have lost the connection, or a new one may have been made
            opts = ["same"]
            if cur["transport"] is not None:
                opts.append("lost")
            if c.get("reconnects") and len(conns) < 2:
                opts.append("new")
            kk = it2.ctx.choose([z3.BoolVal(True)] * len(opts), labels=opts, site="read protocol.transport")
            if opts[kk] == "lost":
                if cur["transport"] is not None:
                    cur["transport"].state["open"] = False
                cur["transport"] = None
            elif opts[kk] == "new":
                n = _conn(log, f"conn{len(conns)}", it2)
                conns.append(n)
                cur["transport"] = n
            return cur["transport"]

        def read_protocol(it2):
            # rely: another thread may have called disconnect()/stop()
            opts = ["same"] + (["disconnected"] if cur["protocol"] is not None and c.get("disconnects", True) else [])
            kk = it2.ctx.choose([z3.BoolVal(True)] * len(opts), labels=opts, site="read transport.protocol")
            if opts[kk] == "disconnected":
                if cur["transport"] is not None:
                    cur["transport"].state["open"] = False
                cur["protocol"] = None
            return cur["protocol"]

        proto.fields.update(
            transport=VolatileField(read_transport),
            gateway=None,
            conn_lost_callback=ModelFn("conn_lost_callback", lambda it2, a, k: log.append(("reconnect",))),
        )
        t = Obj(cls, name="transport")
        t.fields.update(
            protocol=VolatileField(read_protocol),
            can_log=ctx.fresh("bool", "can_log"),
            _lock=None,
            gateway=None,
            reconnect_timeout=10.0,
            timeout=1.0,
        )
        if cls is TR.SyncTransport:
            lock = Modelled("Lock")
            lock.attrs.update(__enter__=ModelFn("enter", lambda it2, a, k: None), __exit__=ModelFn("exit", lambda it2, a, k: False))
            t.fields["_lock"] = lock
        msg = h.sym("str", "message")

        def m_writes_ok(it2, a, k):
            ws = [e for e in log if e[0] == "write"]
            if len(ws) > 1:
                return False
            for w in ws:
                if w[2] is None:
                    return False
            return True

        def m_whole(it2, a, k):
            from pyvc import ops
            from pyvc.laws import py_encode
            from pyvc.core import lift

            ws = [e for e in log if e[0] == "write"]
            if not ws:
                return True
            payload = ws[0][2]
            return ops.mk("bool", ops._seq_term(payload) == py_encode(lift(msg)[1]))

        it.models[id(at_most_one_write)] = ModelFn("at_most_one_write", m_writes_ok)
        it.models[id(whole_message)] = ModelFn("whole_message", m_whole)
        return [t, msg], {}

    return setup


def at_most_one_write():
    return True


def whole_message():
    return True


_CFG = [{"connected": c, "reconnects": r} for c in (True, False) for r in (True, False)]


@contract("mysensors.transport:Transport.send", props=["C16"])
class Send:
    configs = _CFG
    setup = _setup(TR.Transport)
    raises = {}  # never raises into the message pump, whatever the other threads do in between
    ensures = {
        "write-at-most-once": lambda old, self, message, result: at_most_one_write(),
        "whole-command": lambda old, self, message, result: whole_message(),
    }


@contract("mysensors.transport:SyncTransport.send", props=["C16"])
class SyncSend:
    configs = _CFG
    setup = _setup(TR.SyncTransport)
    raises = {}
    ensures = {
        "write-at-most-once": lambda old, self, message, result: at_most_one_write(),
        "whole-command": lambda old, self, message, result: whole_message(),
    }


# ------------------------------------------------------------------------------------------- the pump
import collections

from mysensors import task as T
from pyvc.contract import Loop


def _job(it, log, name):
    """a queued job: a function that returns a reply string (its contract: pure, returns reply <name>)"""

    def run(it2, fn, a, k):
        log.append(("run", name, tuple(a)))
        return it2.env["replies"][name]

    return (Opaque("job:" + name, run), (name,))


def _pump_setup(cls, n_jobs):
    def setup(h):
        it, ctx = h.it, h.ctx
        log = []
        ctx.ghost["pumplog"] = log
        it.env["replies"] = {}
        q = collections.deque()
        names = []
        for i in range(n_jobs):
            nm = f"j{i}"
            names.append(nm)
            it.env["replies"][nm] = h.sym("str", "reply_" + nm)
            q.append(_job(it, log, nm))
        produced = {"n": 0}

        def read_queue(it2):
            # rely: producer threads (reader thread, controller) may append at the tail at any time
            if produced["n"] < h.config.get("producers", 1):
                kk = it2.ctx.choose([z3.BoolVal(True), z3.BoolVal(True)], labels=["no-append", "append"], site="read tasks.queue")
                if kk == 1:
                    nm = f"p{produced['n']}"
                    produced["n"] += 1
                    it2.env["replies"][nm] = it2.ctx.fresh("str", "reply_" + nm)
                    q.append(_job(it2, log, nm))
                    log.append(("appended", nm))
            return q

        tr = Modelled("transport")
        tr.attrs["send"] = ModelFn("transport.send", lambda it2, a, k: log.append(("send", a[0])))
        ev = Modelled("Event")
        ev.attrs["is_set"] = ModelFn("is_set", lambda it2, a, k: False)
        t = Obj(cls, name="tasks")
        t.fields.update(queue=VolatileField(read_queue), transport=tr, _stop_event=ev, persistence=None, ota=None, _cancel_save=None)
        it.env["initial_jobs"] = names

        def m_fifo(it2, a, k):
            """what happened since the iteration began: the job that was at the head was run exactly once,
            its reply was handed to send exactly once, nothing else was run or sent; an empty queue sends None"""
            runs = [e for e in log if e[0] == "run"]
            sends = [e for e in log if e[0] == "send"]
            appended = [e[1] for e in log if e[0] == "appended"]
            if len(sends) != 1:
                return False
            if names:
                head = names[0]
            else:
                head = None
            if head is None:
                # queue empty at iteration start: either nothing to do, or the first job a producer appended
                if not runs:
                    return sends[0][1] is None
                return len(runs) == 1 and appended and runs[0][1] == appended[0] and sends[0][1] is it2.env["replies"][runs[0][1]]
            if len(runs) != 1 or runs[0][1] != head:
                return False
            if sends[0][1] is not it2.env["replies"][head]:
                return False
            # the rest of the queue keeps its order
            rest = [j[1][0] for j in q]
            return rest == names[1:] + appended
        it.models[id(one_fifo_step)] = ModelFn("one_fifo_step", m_fifo)
        return [t], {}

    return setup


def one_fifo_step():
    return True


def _first_iteration(L, old, G):
    return True


@contract("mysensors.task:SyncTasks._poll_queue", props=["C16", "C19"])
class PollQueue:
    """One iteration of the pump, cut at the loop head: from a queue [j0, j1, ...] (+ whatever producers
    append meanwhile) exactly j0 is run and exactly its reply is sent."""

    configs = [{"jobs": n, "producers": p} for n in (0, 1, 2, 3) for p in (0, 1, 2)]
    loops = {("mysensors.task", "SyncTasks._poll_queue", 0): Loop(lambda L, old, G: iteration_boundary())}

    def setup(h):
        args = _pump_setup(T.SyncTasks, h.config["jobs"])(h)
        state = {"n": 0}

        def m_boundary(it2, a, k):
            # evaluated at loop entry (init), after the havoc (assume) and after one body (pres)
            state["n"] += 1
            if state["n"] <= 2:
                return True
            log = it2.ctx.ghost["pumplog"]
            return it2.call(one_fifo_step, [], {})

        h.it.models[id(iteration_boundary)] = ModelFn("iteration_boundary", m_boundary)
        import time as _time

        h.it.models[id(_time.sleep)] = ModelFn("time.sleep", lambda it2, a, k: None)
        return args

    raises = {}


def iteration_boundary():
    return True


@contract("mysensors.task:AsyncTasks.add_job", props=["C19"])
class AsyncAddJob:
    configs = [{"jobs": 0}]

    def setup(h):
        args, kw = _pump_setup(T.AsyncTasks, 0)(h)
        t = args[0]
        log = h.ctx.ghost["pumplog"]
        h.it.env["replies"]["x"] = h.sym("str", "reply_x")
        fn, a = _job(h.it, log, "x")
        return [t, fn] + list(a), {}

    raises = {}
    params = ["self", "func", "arg0"]
    ensures = {"runs-and-sends-now": lambda old, self, func, arg0, result: ran_and_sent_now()}


def ran_and_sent_now():
    return True


_aaj = AsyncAddJob.__dict__["setup"]


def _aaj_setup(h):
    r = _aaj(h)

    def m(it2, a, k):
        log = it2.ctx.ghost["pumplog"]
        return [e[0] for e in log] == ["run", "send"] and log[1][1] is it2.env["replies"]["x"]

    h.it.models[id(ran_and_sent_now)] = ModelFn("ran_and_sent_now", m)
    return r


AsyncAddJob.setup = _aaj_setup
