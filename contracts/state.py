"""State builders: the symbolic pre-state of a gateway, shared by the contracts.

The schema below *declares* the shape of the owned state (field kinds).  The kinds are part
of the gateway invariant: every contract's obligations re-establish them because a store of
a value of another kind into a declared slot is an engine error (Unsupported -> undecided).
"""
from __future__ import annotations

import z3

from pyvc.core import SV
from pyvc.heap import ClassSchema, Deque, MapRef, ObjDict, Scalar, TupleDict, ValDict, World, declare_dict
from pyvc.values import Obj, Opaque, SeqVal

VERSIONS = ("1.4", "1.5", "2.0", "2.1", "2.2")

_SCHEMAS = {}


def schemas():
    if _SCHEMAS:
        return _SCHEMAS
    import mysensors.sensor as S

    child = ClassSchema(
        "ChildSensor",
        S.ChildSensor,
        {
            "id": Scalar("int"),
            "type": Scalar("int"),
            "description": Scalar("str"),
            "values": ValDict("vt", "any"),
        },
    )
    sensor = ClassSchema(
        "Sensor",
        S.Sensor,
        {
            "sensor_id": Scalar("int"),
            "children": ObjDict("child", child),
            "type": Scalar("any"),
            "sketch_name": Scalar("any"),
            "sketch_version": Scalar("any"),
            "_battery_level": Scalar("int"),
            "_protocol_version": Scalar("str"),
            "_heartbeat": Scalar("int"),
            "new_state": ObjDict("child", child),
            "queue": Deque("str"),
            "reboot": Scalar("bool"),
        },
    )
    fw = ClassSchema(
        "Firmware",
        None,
        {"blocks": Scalar("int"), "crc": Scalar("int"), "data": Scalar("bytes")},
        kind="rec",
    )
    _SCHEMAS.update(child=child, sensor=sensor, fw=fw)
    return _SCHEMAS


def new_world(h):
    w = World(h.ctx)
    h.it.world = w
    sc = schemas()
    declare_dict(w, "sensors", ObjDict("node", sc["sensor"]), 0)
    declare_dict(w, "ota.firmware", ObjDict(("fwt", "fwv"), sc["fw"], arity=2), 0)
    for st in ("requested", "unstarted", "started"):
        declare_dict(w, f"ota.{st}", TupleDict("node", ("int", "int")), 0)
    return w


def sensors_ref(w):
    return MapRef(w, "sensors", ObjDict("node", schemas()["sensor"]), ())


def event_callback_contract(it, fn, args, kwargs):
    """The user's event callback: may do anything to *its own* state, may raise any Exception.

    Ghost: every invocation is appended to `events` (the message fields at that moment)."""
    from pyvc.core import ExcVal, PyRaise

    g = it.ctx.ghost
    g["events_count"] = g.get("events_count", 0) + 1
    msg = args[0] if args else None
    g.setdefault("events", []).append(_msg_fields(it, msg))
    k = it.ctx.choose([z3.BoolVal(True), z3.BoolVal(True)], labels=["cb-returns", "cb-raises"], site="event_callback")
    if k == 1:
        raise PyRaise(ExcVal(Exception, ("callback failed",), site="event_callback"))
    return None


def _msg_fields(it, msg):
    if isinstance(msg, Obj):
        snap = {k: msg.fields.get(k) for k in ("node_id", "child_id", "type", "ack", "sub_type", "payload")}
        snap["sensors"] = sensors_ref(it.world.snapshot("at-callback")) if it.world is not None else None
        return snap
    return {"raw": msg}


def make_gateway(h, version="1.4", flavour="sync", persistence="sym", callback=True, cls=None):
    """A symbolic gateway in an arbitrary state (the invariant is assumed by `requires`)."""
    import mysensors
    from mysensors import const as C
    from mysensors import ota as O
    from mysensors import persistence as P
    from mysensors import task as T

    it, ctx = h.it, h.ctx
    w = new_world(h)
    const = C.get_const(version)
    gw = Obj(cls or mysensors.Gateway, name="gateway")
    sens = sensors_ref(w)
    f = gw.fields
    f["const"] = const
    f["event_callback"] = Opaque("event_callback", event_callback_contract) if callback else None
    f["metric"] = ctx.fresh("bool", "metric")
    f["handlers"] = dict(const.get_handler_registry())
    f["can_log"] = ctx.fresh("bool", "can_log")
    f["on_conn_made"] = None
    f["on_conn_lost"] = None
    f["protocol_version"] = version
    f["sensors"] = sens
    tasks = Obj(T.SyncTasks if flavour == "sync" else T.AsyncTasks, name="tasks")
    ota = Obj(O.OTAFirmware, name="ota")
    sc = schemas()
    ota.fields.update(
        _sensors=sens,
        _const=const,
        firmware=MapRef(w, "ota.firmware", ObjDict(("fwt", "fwv"), sc["fw"], arity=2), ()),
        requested=MapRef(w, "ota.requested", TupleDict("node", ("int", "int")), ()),
        unstarted=MapRef(w, "ota.unstarted", TupleDict("node", ("int", "int")), ()),
        started=MapRef(w, "ota.started", TupleDict("node", ("int", "int")), ()),
    )
    tasks.fields["ota"] = ota
    pers = Obj(P.Persistence, name="persistence")
    pers.fields.update(_sensors=sens, need_save=ctx.fresh("bool", "need_save"), persistence_file="mysensors.json", persistence_bak="mysensors.json.bak")
    ctx.ghost["persistence_obj"] = pers
    if persistence == "sym":
        from pyvc.values import LazyField

        def pick(it2, _p=pers):
            pk = it2.ctx.choose([z3.BoolVal(True), z3.BoolVal(True)], labels=["persistence-on", "persistence-off"], site="tasks.persistence")
            it2.ctx.ghost["persistence_on"] = pk == 0
            return _p if pk == 0 else None

        tasks.fields["persistence"] = LazyField(pick)
    elif persistence:
        tasks.fields["persistence"] = pers
        ctx.ghost["persistence_on"] = True
    else:
        tasks.fields["persistence"] = None
        ctx.ghost["persistence_on"] = False
    tasks.fields["transport"] = Obj(object, name="transport")
    from pyvc.core import QSTR

    from pyvc.core import INT, STR
    from pyvc.loops import GhostArr

    # ghost: how many `set` commands were handed to the transport per (child, value type), and with what payload
    ctx.ghost["setcount"] = GhostArr(z3.K(INT, z3.K(INT, z3.IntVal(0))), ("child", "vt"), "int")
    ctx.ghost["setpay"] = GhostArr(ctx.fresh_term(z3.ArraySort(INT, z3.ArraySort(INT, STR)), "setpay"), ("child", "vt"), "str")
    ctx.ghost["rawjobs"] = 0
    ctx.ghost["setjobs"] = 0
    ctx.ghost["events"] = []
    ctx.ghost["localtime"] = 0
    ctx.ghost["new_id"] = None
    ctx.ghost["sent"] = SeqVal("str", z3.Empty(QSTR), "list")
    # ghost: every reply handed to the transport so far was a command for `sender` (the node whose line is
    # being processed; set by the contracts on Gateway.logic)
    ctx.ghost["sender"] = None
    ctx.ghost["jobs_ok"] = True
    f["tasks"] = tasks
    return gw
