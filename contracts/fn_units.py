"""Function-level contracts of the helpers the gateway-step family rests on (they are also executed in
place under the `logic` contracts; here each is checked against a contract of its own)."""
import z3

from mysensors import validation as V
from pyvc.contract import as_str, contract, env, forall, frame_except, implies, is_none, is_str, same_dict, same_item
from pyvc.values import ModelFn, Obj, Opaque
from spec import api, proto, wire
from spec.prims import int_of, int_ok

from . import summaries
from .c05_replies import desired_or_actual
from .inv import i_children, i_nodes, inv, inv_shape
from .loops_sleep import LOOPS
from .state import VERSIONS, make_gateway


def _sensor_setup(h, extra=()):
    gw = make_gateway(h, h.config.get("version", "2.0"))
    summaries.install(h.it)
    h.it.loop_contracts.update(LOOPS)
    n = h.sym("int", "n")
    sens = gw.fields["sensors"]
    h.ctx.add_fact(sens.contains(n))
    h.it.env["gw"] = gw
    return gw, sens.read(n)


@contract("mysensors.sensor:Sensor.get_desired_value", props=["C05", "C08"])
class GetDesiredValue:
    def setup(h):
        gw, s = _sensor_setup(h)
        return [s, h.sym("int", "child_id"), h.sym("int", "value_type")], {}

    def requires(self, child_id, value_type):
        return inv(env("gw"))

    raises = {}  # total: also for a child presented after the last wake-up
    ensures = {
        "desired-or-actual": lambda old, self, child_id, value_type, result: (
            child_id not in self.children and result is None
        )
        or (child_id in self.children and result == desired_or_actual(self, child_id, value_type)),
        "pure": lambda old, self, child_id, value_type, result: same_dict(env("gw").sensors, old.gw.sensors),
    }


@contract("mysensors.sensor:Sensor.update_child_value", props=["C04", "C08"])
class UpdateChildValue:
    def setup(h):
        gw, s = _sensor_setup(h)
        return [s, h.sym("int", "child_id"), h.sym("int", "value_type"), h.sym("str", "value")], {}

    def requires(self, child_id, value_type, value):
        return inv_shape(env("gw"))

    raises = {}
    ensures = {
        # unknown child: nothing; known child: the value is stored, the pending desired value of exactly that
        # type is cleared, nothing else moves
        "unknown-child-noop": lambda old, self, child_id, value_type, value, result: child_id in old.self.children
        or same_dict(env("gw").sensors, old.gw.sensors),
        "stored": lambda old, self, child_id, value_type, value, result: child_id not in old.self.children
        or (value_type in self.children[child_id].values and self.children[child_id].values[value_type] == value),
        "desired-cleared": lambda old, self, child_id, value_type, value, result: not (
            child_id in old.self.children and child_id in old.self.new_state
        )
        or (value_type in self.new_state[child_id].values and is_none(self.new_state[child_id].values[value_type])),
        "frame": lambda old, self, child_id, value_type, value, result: frame_except(self, old.self, "children")
        and frame_except(self, old.self, "new_state")
        and self.queue == old.self.queue
        and self.reboot == old.self.reboot
        and forall(
            ("child", "vt"),
            lambda c, vt: (c == child_id and vt == value_type)
            or (
                (vt in self.children[c].values) == (vt in old.self.children[c].values)
                and self.children[c].values[vt] == old.self.children[c].values[vt]
                and (vt in self.new_state[c].values) == (vt in old.self.new_state[c].values)
                and self.new_state[c].values[vt] == old.self.new_state[c].values[vt]
            ),
        ),
    }


@contract("mysensors.sensor:Sensor.add_child_sensor", props=["C04"])
class AddChildSensor:
    def setup(h):
        gw, s = _sensor_setup(h)
        return [s, h.sym("int", "child_id"), h.sym("int", "child_type"), h.sym("str", "description")], {}

    raises = {}
    ensures = {
        # first presentation wins
        "first-wins": lambda old, self, child_id, child_type, description, result: child_id not in old.self.children
        or (result is None and same_dict(env("gw").sensors, old.gw.sensors)),
        "added": lambda old, self, child_id, child_type, description, result: child_id in old.self.children
        or (
            result == child_id
            and child_id in self.children
            and self.children[child_id].id == child_id
            and self.children[child_id].type == child_type
            and self.children[child_id].description == description
            and not self.children[child_id].values
            and forall(old.self.children, lambda c: c in self.children and same_item(self.children, old.self.children, c))
            and forall(self.children, lambda c: c in old.self.children or c == child_id)
        ),
    }


@contract("mysensors.sensor:Sensor.init_smart_sleep_mode", props=["C08"])
class InitSmartSleep:
    def setup(h):
        gw, s = _sensor_setup(h)
        return [s], {}

    def requires(self):
        return inv_shape(env("gw"))

    raises = {}
    ensures = {
        "covers-children": lambda old, self, result: forall(self.children, lambda c: c in self.new_state)
        and forall(self.new_state, lambda c: c in old.self.new_state or c in self.children),
        "existing-kept": lambda old, self, result: forall(
            old.self.new_state, lambda c: c in self.new_state and same_item(self.new_state, old.self.new_state, c)
        ),
        "new-entries-empty": lambda old, self, result: forall(
            self.new_state,
            lambda c: c in old.self.new_state
            or (self.new_state[c].id == c and self.new_state[c].type == self.children[c].type and not self.new_state[c].values),
        ),
        "frame": lambda old, self, result: frame_except(self, old.self, "new_state") and same_dict(self.children, old.self.children),
    }


def _msg(h, gw, payload_kind="str"):
    from mysensors.message import Message

    m = Obj(Message, name="reply")
    m.fields.update(
        node_id=h.sym("int", "m_node"), child_id=h.sym("int", "m_child"), type=h.sym("int", "m_type"),
        ack=h.sym("int", "m_ack"), sub_type=h.sym("int", "m_sub"), payload=h.sym(payload_kind, "m_payload"), gateway=gw,
    )
    return m


@contract("mysensors:Gateway._route_message", props=["C07"])
class RouteMessage:
    configs = [{"version": v, "msg": m} for v in ("1.4", "2.0", "2.2") for m in ("message", "none")]

    def setup(h):
        gw = make_gateway(h, h.config["version"])
        summaries.install(h.it)
        m = _msg(h, gw) if h.config["msg"] == "message" else None
        return [gw, m], {}

    def requires(self, msg):
        return inv_shape(self) and (msg is None or wire.carriable(msg.payload))

    raises = {}
    ensures = {
        # sleeping node and not stream: withheld, exactly once, at the tail of that node's queue
        "withheld": lambda old, self, msg, result: msg is None
        or msg.type == proto.PRESENTATION
        or not (proto.sleeping(old.self, msg.node_id) and msg.type != proto.STREAM)
        or (
            result is None
            and self.sensors[msg.node_id].queue
            == old.self.sensors[msg.node_id].queue
            + [wire.canon(msg.node_id, msg.child_id, msg.type, msg.ack, msg.sub_type, msg.payload)]
        ),
        # everybody else is never delayed
        "passed-through": lambda old, self, msg, result: msg is None
        or msg.type == proto.PRESENTATION
        or (proto.sleeping(old.self, msg.node_id) and msg.type != proto.STREAM)
        or (result is msg and same_dict(self.sensors, old.self.sensors)),
        "presentations-and-none-dropped": lambda old, self, msg, result: not (msg is None or msg.type == proto.PRESENTATION)
        or (result is None and same_dict(self.sensors, old.self.sensors)),
        "other-queues": lambda old, self, msg, result: forall(
            old.self.sensors,
            lambda m: m in self.sensors and ((msg is not None and m == msg.node_id) or self.sensors[m].queue == old.self.sensors[m].queue),
        ),
    }


@contract("mysensors:Gateway.alert", props=["C04", "C14", "C18"])
class Alert:
    configs = [{"persistence": p, "callback": c} for p in (True, False) for c in (True, False)]

    def setup(h):
        gw = make_gateway(h, "2.0", persistence=h.config["persistence"], callback=h.config["callback"])
        return [gw, _msg(h, gw)], {}

    raises = {}  # a callback that raises changes nothing else and does not escape
    ensures = {
        "callback-once": lambda old, self, msg, result: len(old.G_now.events) == (1 if self.event_callback is not None else 0),
        "marked-dirty": lambda old, self, msg, result: not old.G_now.persistence_on or old.G_now.persistence_obj.need_save,
        "state-untouched": lambda old, self, msg, result: same_dict(self.sensors, old.self.sensors),
    }


@contract("mysensors.validation:is_battery_level", props=["C04"])
class IsBatteryLevel:
    configs = [{"kind": k} for k in ("str", "int", "none")]

    def setup(h):
        k = h.config["kind"]
        return [None if k == "none" else h.sym(k, "value")], {}

    raises = {}
    ensures = {
        # last reported value with the safe fall-back 0
        "percent-or-zero": lambda old, value, result: result == (proto.battery_or_fallback(value) if is_str(value) else battery_num(value)),
    }


def battery_num(v):
    return 0 if v is None else (v if (0 <= v and v <= 100) else 0)


@contract("mysensors.validation:is_heartbeat", props=["C04"])
class IsHeartbeat:
    configs = [{"kind": k} for k in ("str", "int", "none")]

    def setup(h):
        k = h.config["kind"]
        return [None if k == "none" else h.sym(k, "value")], {}

    raises = {}
    ensures = {
        "int-or-zero": lambda old, value, result: result == (proto.heartbeat_or_fallback(value) if is_str(value) else (0 if value is None else value)),
    }
