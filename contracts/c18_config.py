"""C18 - documented configuration is accepted and honoured: keyword flow along the real MRO of the six
gateway classes (every subset of the documented options) and the version floor."""
import itertools
import os

import z3

import mysensors
from mysensors import const as C
from mysensors import gateway_mqtt as GM
from mysensors import gateway_serial as GS
from mysensors import gateway_tcp as GT
from mysensors import validation as V
from pyvc.contract import contract
from pyvc.core import lift
from pyvc.values import ModelFn, Modelled, Obj, Opaque
from spec import ver

COMMON = ("event_callback", "persistence", "persistence_file", "protocol_version")
CLASSES = {
    "SerialGateway": (GS.SerialGateway, ("port",), ("baud", "timeout", "reconnect_timeout")),
    "AsyncSerialGateway": (GS.AsyncSerialGateway, ("port",), ("baud", "timeout", "reconnect_timeout")),
    "TCPGateway": (GT.TCPGateway, ("host",), ("port", "timeout", "reconnect_timeout")),
    "AsyncTCPGateway": (GT.AsyncTCPGateway, ("host",), ("port", "timeout", "reconnect_timeout")),
    "MQTTGateway": (GM.MQTTGateway, ("pub_callback", "sub_callback"), ("in_prefix", "out_prefix", "retain")),
    "AsyncMQTTGateway": (GM.AsyncMQTTGateway, ("pub_callback", "sub_callback"), ("in_prefix", "out_prefix", "retain")),
}
VALUES = {
    "event_callback": lambda h: Opaque("my_callback"),
    "persistence": lambda h: True,
    "persistence_file": lambda h: "/vfs/net.json",
    "protocol_version": lambda h: "2.1",
    "baud": lambda h: h.sym("int", "baud"),
    "port": lambda h: h.sym("int", "port"),
    "timeout": lambda h: h.sym("real", "timeout"),
    "reconnect_timeout": lambda h: h.sym("real", "reconnect_timeout"),
    "in_prefix": lambda h: h.sym("str", "in_prefix"),
    "out_prefix": lambda h: h.sym("str", "out_prefix"),
    "retain": lambda h: h.sym("bool", "retain"),
}
DEFAULTS = {"baud": 115200, "port": 5003, "timeout": 1.0, "reconnect_timeout": 10.0, "in_prefix": "", "out_prefix": "", "retain": True,
            "event_callback": None, "persistence": False, "persistence_file": "mysensors.pickle", "protocol_version": "1.4"}


def _configs(tier=None):
    out = []
    for cname, (_cls, pos, opt) in CLASSES.items():
        opts = COMMON + opt
        for r in range(len(opts) + 1):
            for comb in itertools.combinations(opts, r):
                out.append({"cls": cname, "opts": list(comb)})
    return out


def _construct(cls, pos, kw):
    return cls(*pos, **kw)


def construct(cls, pos, kw):
    return cls(*pos, **kw)


@contract("mysensors:Gateway.__init__", props=["C18"], name="constructors")
class Constructors:
    lemma = True
    configs = _configs
    params = ["cls", "pos", "kw"]
    body = construct

    def setup(h):
        import serial.threaded as ST

        h.it.roots.append(os.path.dirname(os.path.realpath(ST.__file__)))
        c = h.config
        cls, pos, _opt = CLASSES[c["cls"]]
        posv = []
        for p in pos:
            posv.append(Opaque(p) if p.endswith("callback") else ("/dev/ttyUSB0" if p == "port" else "10.0.0.7"))
        kw = {o: VALUES[o](h) for o in c["opts"]}
        h.it.env["given"] = kw
        h.it.env["pos"] = posv

        def m_honoured(it, a, k):
            from pyvc import ops

            gw = a[0]
            given = it.env["given"]

            def val(o):
                return given[o] if o in given else DEFAULTS[o]

            def same(x, y):
                e = ops.eq_term(it, x, y)
                return e if isinstance(e, bool) else ops.mk("bool", e)

            checks = []
            f = gw.fields
            checks.append(f["event_callback"] is val("event_callback") if "event_callback" in given else f["event_callback"] is None)
            checks.append(f["protocol_version"] == val("protocol_version"))
            checks.append(f["const"] is C.get_const(val("protocol_version")))
            tasks = f["tasks"]
            pers = tasks.fields["persistence"]
            checks.append((pers is not None) == bool(val("persistence")))
            if pers is not None:
                checks.append(pers.fields["persistence_file"] == val("persistence_file"))
            tr = tasks.fields["transport"]
            if c["cls"].endswith("MQTTGateway"):
                for o, fld in (("in_prefix", "in_prefix"), ("out_prefix", "out_prefix"), ("retain", "_retain")):
                    checks.append(same(tr.fields[fld], val(o)))
            else:
                checks.append(same(tr.fields["timeout"], val("timeout")))
                checks.append(same(tr.fields["reconnect_timeout"], val("reconnect_timeout")))
                if "Serial" in c["cls"]:
                    checks.append(f["port"] == it.env["pos"][0])
                    checks.append(same(f["baud"], val("baud")))
                else:
                    checks.append(f["server_address"][0] == it.env["pos"][0])
                    checks.append(same(f["server_address"][1], val("port")))
            conj = []
            for ch in checks:
                t = ops.truth(it, ch)
                if isinstance(t, bool):
                    if not t:
                        return False
                else:
                    conj.append(t)
            return ops.mk("bool", z3.And(conj)) if conj else True

        h.it.models[id(options_honoured)] = ModelFn("options_honoured", m_honoured)
        return [cls, posv, kw], {}

    raises = {}  # every combination of the documented options is accepted
    ensures = {"honoured": lambda old, cls, pos, kw, result: options_honoured(result)}


def options_honoured(gw):
    return True


# ------------------------------------------------------------------------------------------- version floor
def _numeric_version(h, patch):
    """a version string major.minor[.patch] with symbolic numeric sections"""
    from pyvc.libmodels import aw_known, aw_sec, aw_simple3, aw_string
    from pyvc.laws import lawbook, py_strip

    s = h.sym("str", "version")
    M, m, p = h.sym("int", "major"), h.sym("int", "minor"), h.sym("int", "patch")
    t = s.term
    ctx = h.ctx
    ctx.add_fact(py_strip(t) == t)
    ctx.add_fact(aw_simple3(t))
    ctx.add_fact(z3.And(aw_sec(t, 0) == M.term, aw_sec(t, 1) == m.term, aw_sec(t, 2) == p.term))
    ctx.add_fact(z3.And(M.term >= 0, m.term >= 0, p.term >= 0))
    # the text is its own canonical spelling; it equals a literal "a.b" only if its sections say so
    ctx.add_fact(aw_string(t) == t)
    for i, (a, b) in enumerate(ver.SUPPORTED):
        lit = lift(ver.LABELS[i])[1]
        ctx.add_fact(z3.Implies(t == lit, z3.And(M.term == a, m.term == b, p.term == 0)))
    if not patch:
        # "major.minor" in canonical decimal spelling: equal sections mean the same text
        ctx.add_fact(p.term == 0)
        for i, (a, b) in enumerate(ver.SUPPORTED):
            ctx.add_fact(z3.Implies(z3.And(M.term == a, m.term == b), t == lift(ver.LABELS[i])[1]))
    else:
        # "major.minor.patch" has three sections: it is never the text of a two-section version
        for i in range(len(ver.SUPPORTED)):
            ctx.add_fact(t != lift(ver.LABELS[i])[1])
    h.it.env.update(M=M, m=m, p=p)
    return s


@contract("mysensors.const:get_const", props=["C18"])
class GetConst:
    configs = [{"patch": False}, {"patch": True}]

    def setup(h):
        return [_numeric_version(h, h.config["patch"])], {}

    raises = {}
    ensures = {
        # the tables of the highest supported version not above the given one, numerically
        "floor": lambda old, protocol_version, result: result is floor_module(),
    }


def floor_module():
    return None


_gc = GetConst.__dict__["setup"]


def _gc_setup(h):
    args = _gc(h)

    def m(it, a, k):
        from pyvc.core import SV, Unsupported

        if it.formula_mode:
            raise Unsupported("floor_module forks: exec mode")
        M, m_, p = it.env["M"], it.env["m"], it.env["p"]
        idx = it.call(ver.floor_index, [M, m_, p], {})
        if isinstance(idx, SV):
            kk = it.ctx.choose([idx.term == i for i in range(5)], labels=list(ver.LABELS), site="floor")
            idx = kk
        return C.get_const(ver.LABELS[idx])

    h.it.models[id(floor_module)] = ModelFn("floor_module", m)
    return args


GetConst.setup = _gc_setup


@contract("mysensors.validation:safe_is_version", props=["C18"])
class SafeIsVersion:
    configs = [{"kind": "numeric"}, {"kind": "any"}, {"kind": "none"}]

    def setup(h):
        k = h.config["kind"]
        if k == "numeric":
            return [_numeric_version(h, True)], {}
        if k == "none":
            return [None], {}
        return [h.sym("str", "version")], {}

    raises = {}  # total: junk, numbers and None fall back
    ensures = {
        "numeric-older-falls-back": lambda old, value, result: sane(value, result),
    }


def sane(value, result):
    return True


_siv = SafeIsVersion.__dict__["setup"]


def _siv_setup(h):
    args = _siv(h)

    def m(it, a, k):
        from pyvc import ops

        value, result = a
        if h.config["kind"] == "none":
            return result == "1.4"
        if h.config["kind"] == "numeric":
            M, m_, p = (it.env[x].term for x in ("M", "m", "p"))
            older = z3.Or(M < 1, z3.And(M == 1, m_ < 4))
            rt = lift(result)[1]
            vt = lift(value)[1]
            return ops.mk("bool", z3.And(z3.Implies(older, rt == lift("1.4")[1]), z3.Implies(z3.Not(older), rt == vt)))
        # arbitrary text: the result is the text itself or the fall-back
        rt = lift(result)[1]
        return ops.mk("bool", z3.Or(rt == lift(value)[1], rt == lift("1.4")[1]))

    h.it.models[id(sane)] = ModelFn("sane", m)
    return args


SafeIsVersion.setup = _siv_setup


# the second version test of the package: presentation requests for unknown nodes (>= 2.0) must depend
# on the *same* floor as the tables, otherwise "2.0.0" gets the 2.0 tables but not the 2.0 behaviour
@contract("mysensors:Gateway.is_sensor", props=["C05", "C18"])
class IsSensorVersion:
    configs = [{"patch": p, "floor": f} for p in (False, True) for f in range(5)]

    def setup(h):
        from . import summaries
        from .state import make_gateway

        v = _numeric_version(h, h.config["patch"])
        f = h.config["floor"]
        gw = make_gateway(h, ver.LABELS[f])
        gw.fields["protocol_version"] = v
        summaries.install(h.it, names=("add_job", "validate", "copy"))
        M, m_, p = h.it.env["M"], h.it.env["m"], h.it.env["p"]
        h.it.env["floor"] = f
        h.ctx.mode = "exec"
        idx = h.it.call(ver.floor_index, [M, m_, p], {})
        from pyvc.core import SV

        h.ctx.add_fact((idx.term if isinstance(idx, SV) else z3.IntVal(idx)) == f)
        return [gw, h.sym("int", "sensorid")], {}

    def requires(self, sensorid, child_id=None):
        return sensorid not in self.sensors and 0 <= sensorid and sensorid <= 255

    raises = {}
    ensures = {
        "presentation-request-iff-v2": lambda old, self, sensorid, result, child_id=None: result is False
        and requested_presentation(old) == floor_is_v2(),
    }


def requested_presentation(old):
    return len(old.G_now.jobs) == 1


def floor_is_v2():
    return True


_isv = IsSensorVersion.__dict__["setup"]


def _isv_setup(h):
    args = _isv(h)
    h.ctx.ghost["jobs"] = []
    h.it.models[id(floor_is_v2)] = ModelFn("floor_is_v2", lambda it, a, k: it.env["floor"] >= 2)
    return args


IsSensorVersion.setup = _isv_setup
