"""C19 - behaviour depends only on the lines received: newline framing (dependency code under contract:
serial.threaded.Packetizer.data_received / LineReader.handle_packet) and hand-over to the pump."""
import os

import serial.threaded as ST
import z3

from mysensors import transport as TR
from pyvc.contract import Loop, contract
from pyvc.core import BYTES
from pyvc.values import ModelFn, Modelled, Obj, Opaque, SeqVal

SERIAL_ROOT = os.path.dirname(os.path.realpath(ST.__file__))
NL = b"\n"


def _bytes(h, name):
    return SeqVal("byte", h.ctx.fresh_term(BYTES, name), "bytes")


def _protocol(h, framing=True, cls=None):
    it, ctx = h.it, h.ctx
    log = []
    ctx.ghost["lines"] = log
    ctx.ghost["flat"] = SeqVal("byte", z3.Empty(BYTES), "bytes")
    ctx.ghost["npackets"] = 0
    tasks = Modelled("tasks")
    tr = Modelled("transport")
    tr.attrs["can_log"] = True
    tasks.attrs["transport"] = tr
    gw = Modelled("gateway")
    gw.attrs["logic"] = Opaque("gateway.logic")
    gw.attrs["tasks"] = tasks

    def add_job(it2, a, k):
        log.append((a[0], a[1]))
        return None

    tasks.attrs["add_job"] = ModelFn("tasks.add_job", add_job)
    p = Obj(cls or TR.BaseMySensorsProtocol, name="protocol")
    p.fields.update(buffer=_bytes(h, "buffer"), transport=None, gateway=gw, conn_lost_callback=None)
    ctx.add_fact(z3.Not(z3.Contains(p.fields["buffer"].term, z3.Unit(z3.BitVecVal(10, 8)))))  # Inv: no terminator left in the buffer

    def after_packet(it2, args, rv):
        g = it2.ctx.ghost
        packet = args[1]
        from pyvc import ops

        g["flat"] = SeqVal("byte", z3.Concat(g["flat"].term, ops._seq_term(packet), z3.Unit(z3.BitVecVal(10, 8))), "bytes")
        g["npackets"] = ops.mk("int", ops.lift(g["npackets"])[1] + 1) if False else g["npackets"] + 1 if isinstance(g["npackets"], int) else ops.mk("int", g["npackets"].term + 1)
        if framing:
            it2.ctx.oblige("data_received.packet-has-no-terminator", z3.Not(z3.Contains(ops._seq_term(packet), z3.Unit(z3.BitVecVal(10, 8)))), kind="post")

    it.post_hooks[("serial.threaded", "LineReader.handle_packet")] = after_packet
    return p


def _data_received_contract(mod, cls):
    """The contract is on whatever `data_received` the repository's protocol class resolves to (today the
    inherited serial.threaded.Packetizer.data_received; an override in the repository is verified instead)."""
    ns = dict(
        extra_roots=[SERIAL_ROOT],
        loops={
            ("serial.threaded", "Packetizer.data_received", 0): Loop(
                # everything received so far = the emitted packets, each followed by its terminator, then the buffer
                lambda L, old, G: old.G.flat + old.self.buffer == G.flat + L.self.buffer,
                ghosts=["flat", "npackets"],
                fields=[("self", "buffer")],
            )
        },
        setup=lambda h: ([_protocol(h, cls=cls), _bytes(h, "data")], {}),
        raises={},
        ensures={
            # framing: old buffer ++ chunk = packets (each + "\n") ++ new buffer, and no terminator stays behind
            "decomposition": lambda old, self, data, result: old.self.buffer + old.data == old.G_now.flat + self.buffer,
            "buffer-has-no-terminator": lambda old, self, data, result: NL not in self.buffer,
        },
    )
    name = f"{cls.__name__}.data_received"
    return contract(f"{mod}:{cls.__name__}.data_received", props=["C19"], name=name)(type("DataReceived_" + cls.__name__, (), ns))


from mysensors import gateway_tcp as GT

DataReceived = _data_received_contract("mysensors.transport", TR.BaseMySensorsProtocol)
DataReceivedAsync = _data_received_contract("mysensors.transport", TR.AsyncMySensorsProtocol)
DataReceivedAsyncTcp = _data_received_contract("mysensors.gateway_tcp", GT.AsyncTCPMySensorsProtocol)


def _unique(p, q, r, t):
    return (p, q, r, t)


@contract("serial.threaded:Packetizer.data_received", props=["C19"], name="L.framing-unique")
class LemmaFramingUnique:
    """p ++ "\\n" ++ r = q ++ "\\n" ++ t with no "\\n" in p, q  =>  p = q and r = t: the decomposition of a byte
    stream into newline-terminated packets is unique, hence independent of how the stream was chunked."""

    lemma = True
    z3_first_ms = 5000  # z3 runs into its budget on both clauses, cvc5 answers in 0.2 s: let cvc5 try early
    params = ["p", "q", "r", "t"]
    body = _unique

    def setup(h):
        return [_bytes(h, n) for n in "pqrt"], {}

    def requires(p, q, r, t):
        return p + NL + r == q + NL + t and NL not in p and NL not in q

    raises = {}
    ensures = {"same-packet": lambda old, p, q, r, t, result: p == q, "same-rest": lambda old, p, q, r, t, result: r == t}


@contract("mysensors.transport:BaseMySensorsProtocol.handle_packet", props=["C19"])
class HandlePacket:
    """decoding happens per packet, i.e. after framing: a split inside a multi-byte character or between CR
    and LF cannot matter; each packet becomes exactly one `logic` job"""

    extra_roots = [SERIAL_ROOT]

    def setup(h):
        return [_protocol(h, framing=False), _bytes(h, "packet")], {}

    raises = {}
    ensures = {"one-job-per-packet": lambda old, self, packet, result: one_logic_job(packet)}


def one_logic_job(packet):
    return True


_hp = HandlePacket.__dict__["setup"]


def _hp_setup(h):
    args = _hp(h)

    def m(it2, a, k):
        from pyvc import ops
        from pyvc.laws import py_decode

        log = it2.ctx.ghost["lines"]
        if len(log) != 1:
            return False
        fn, line = log[0]
        if not (hasattr(fn, "name") and fn.name == "gateway.logic"):
            return False
        return ops.mk("bool", ops.lift(line)[1] == py_decode(ops._seq_term(a[0])))

    h.it.models[id(one_logic_job)] = ModelFn("one_logic_job", m)
    return args


HandlePacket.setup = _hp_setup


# ------------------------------------------------------------------------------------------- flavours
import collections

from mysensors import task as T


def _flavour_tasks(h, cls, log):
    tr = Modelled("transport")
    tr.attrs["send"] = ModelFn("transport.send", lambda it, a, k: log.append(a[0]) if a[0] is not None else None)
    t = Obj(cls, name="tasks")
    t.fields.update(queue=collections.deque(), transport=tr, persistence=None, ota=None, _cancel_save=None)
    if cls is T.SyncTasks:
        ev = Modelled("Event")
        state = {"iterations": 0}

        def is_set(it, a, k):
            # the pump runs until the queue is drained
            state["iterations"] += 1
            return state["iterations"] > 1 and not t.fields["queue"]

        ev.attrs["is_set"] = ModelFn("is_set", is_set)
        t.fields["_stop_event"] = ev
    return t


def _two_lines(h, tasks):
    """line 1 makes the gateway hand a command to the transport (e.g. the wake-up burst of node 1) and has no
    direct reply; line 2 (from another node) is answered directly"""
    burst = h.it.env["burst"]
    reply2 = h.it.env["reply2"]

    def logic1(it, fn, a, k):
        it.call(it.getattr(tasks, "add_job"), [Opaque("str", lambda it2, f2, a2, k2: burst), "queued-line"], {})
        return None

    def logic2(it, fn, a, k):
        return reply2

    return Opaque("logic(line1)", logic1), Opaque("logic(line2)", logic2)


def _both_flavours(sync_tasks, async_tasks, l1s, l2s, l1a, l2a):
    # the reader thread queues both lines before the pump gets to run (an arrival schedule the threaded flavour allows)
    sync_tasks.add_job(l1s, "line1")
    sync_tasks.add_job(l2s, "line2")
    sync_tasks._poll_queue()
    # the asyncio flavour handles each line as it arrives
    async_tasks.add_job(l1a, "line1")
    async_tasks.add_job(l2a, "line2")
    return None


@contract("mysensors.task:SyncTasks._poll_queue", props=["C19"], name="sync_pump.order")
class FlavoursSameOrder:
    """the sequence of emitted commands is a function of the lines alone: same for both flavours"""

    lemma = True
    params = ["sync_tasks", "async_tasks", "l1s", "l2s", "l1a", "l2a"]
    body = _both_flavours

    def setup(h):
        import time as _time

        slog, alog = [], []
        h.ctx.ghost["sync_sent"] = slog
        h.ctx.ghost["async_sent"] = alog
        h.it.env["burst"] = h.sym("str", "burst_for_node1")
        h.it.env["reply2"] = h.sym("str", "reply_for_node2")
        st = _flavour_tasks(h, T.SyncTasks, slog)
        at = _flavour_tasks(h, T.AsyncTasks, alog)
        l1s, l2s = _two_lines(h, st)
        l1a, l2a = _two_lines(h, at)
        h.it.models[id(_time.sleep)] = ModelFn("time.sleep", lambda it, a, k: None)
        h.it.models[id(same_emission_order)] = ModelFn("same_emission_order", lambda it, a, k: [id(x) for x in slog] == [id(x) for x in alog])
        return [st, at, l1s, l2s, l1a, l2a], {}

    raises = {}
    ensures = {"same-order": lambda old, sync_tasks, async_tasks, l1s, l2s, l1a, l2a, result: same_emission_order()}


def same_emission_order():
    return True
