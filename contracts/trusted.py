"""Trusted base per property (DESIGN section 8): every assumption left unchecked."""

T = {
    "T-engine": "pyvc implements the Python subset of DESIGN section 5 correctly (engine/CPython differential, mutants)",
    "T-smt": "z3 5.1 / cvc5 1.0 are sound",
    "T-int": "Python ints are mathematical integers",
    "T-str": "laws about str.split/join/rstrip/int/str (pyvc/laws.py), audited natively",
    "T-hex": "laws about binascii.hexlify/unhexlify and struct.pack/unpack '<nH'",
    "T-dict": "dict/deque laws; attribute load/store and deque methods atomic under the GIL",
    "T-vol": "semantics of voluptuous All/Any/Coerce/Range/In/literal/str/Schema(Object)",
    "T-aw": "AwesomeVersion comparison semantics (numeric, section by section)",
    "T-json": "json round trip / decoding errors are ValueError",
    "T-pickle": "pickle round trip / documented unpickling error classes",
    "T-crc": "crcmod 'modbus' equals CRC-16/MODBUS",
    "T-ihex": "IntelHex.fromfile+tobinstr returns the bytes the file encodes",
    "T-fs": "ghost file system: atomic rename/link/remove, ordered metadata, durability only by fsync; a failing operation raises OSError, FileNotFoundError or PermissionError",
    "T-serial": "pyserial/asyncio call connection_made/lost once per connection; write completes or raises OSError or one of its subclasses",
    "T-rely": "interference by other threads is what the contracts' relies state and no more: a report between two file operations of a save, a user stop during a retry wait, producers appending to the job queue, a connection lost/closed/replaced between two attribute reads, cancellation at an await, late done-callbacks; finer-grained interleavings (inside one bytecode-atomic operation, two saves at once) are not explored",
    "T-time": "time.time() is non-decreasing",
    "T-file": "a persistence file read at start-up is damaged or was written by save_sensors under the same version",
    "T-spec": "the spec functions in /verif/spec say what the property statements say",
    "T-schema": "declared field kinds of Sensor/ChildSensor (contracts/state.py); stores of other kinds are undecided, not proved",
}

_GW = ["T-engine", "T-smt", "T-int", "T-str", "T-hex", "T-vol", "T-aw", "T-dict", "T-schema", "T-spec", "T-crc"]
PER_PROP = {
    "C01": _GW, "C04": _GW, "C05": _GW + ["T-time"], "C07": _GW, "C08": _GW, "C10": _GW, "C14": _GW + ["T-json", "T-pickle", "T-fs", "T-rely"],
    "C02": ["T-engine", "T-smt", "T-int", "T-str", "T-spec"],
    "C11": ["T-engine", "T-smt", "T-json", "T-pickle", "T-aw", "T-vol"],
    "C17": ["T-engine", "T-smt", "T-str", "T-dict", "T-schema"],
    "C12": ["T-engine", "T-smt", "T-fs", "T-json", "T-pickle"],
    "C13": ["T-engine", "T-smt", "T-fs", "T-json", "T-pickle", "T-file"],
    "C15": ["T-engine", "T-smt", "T-fs", "T-dict", "T-serial", "T-rely"],
    "C16": ["T-engine", "T-smt", "T-dict", "T-serial", "T-rely"],
    "C18": ["T-engine", "T-smt", "T-aw", "T-spec", "T-dict"],
    "C19": ["T-engine", "T-smt", "T-serial", "T-dict", "T-str"],
    "C20": ["T-engine", "T-smt", "T-serial", "T-time", "T-dict", "T-rely"],
    "C09": ["T-engine", "T-smt", "T-int", "T-hex", "T-crc", "T-ihex", "T-spec"],
    "C03": ["T-engine", "T-smt", "T-int", "T-vol", "T-aw", "T-str", "T-hex", "T-spec"],
    "C06": _GW + ["T-json", "T-pickle"],
}


def trusted_base(prop):
    return [f"{k}: {T[k]}" for k in PER_PROP.get(prop, ["T-engine", "T-smt"])]


def assumptions(prop):
    return trusted_base(prop)


# Module-level caches of the code under contract that a function may write (every other write of module- or
# class-level state fails the frame obligation `frame.module-state`).  Each entry states the cache invariant as
# a check on the written (key, value); it is evaluated at every write the engine sees.
def _loaded_const_ok(key, value):
    """mysensors.const.LOADED_CONST[path] is the module named path: a lookup can only return what
    import_module(path) returns, so get_const does not depend on earlier calls"""
    import types

    return isinstance(key, str) and isinstance(value, types.ModuleType) and value.__name__ == key


MODULE_CACHES = {"mysensors.const:LOADED_CONST": _loaded_const_ok}
