"""C04 - network state mirrors what the nodes reported; callbacks are exact (entry contract on logic)."""
from pyvc.contract import as_int, as_str, contract, forall, frame_except, implies, is_int, is_none, is_str, same_dict, same_item
from spec import api, proto, wire

from .gw_logic import _configs, _setup, accepted
from .inv import inv

F = wire.fields


def node_view_same(a, b):
    """persisted view of one node: attributes and the whole child/value tree"""
    return (
        a.sensor_id == b.sensor_id
        and a.type == b.type
        and a.sketch_name == b.sketch_name
        and a.sketch_version == b.sketch_version
        and a._battery_level == b._battery_level
        and a._protocol_version == b._protocol_version
        and a._heartbeat == b._heartbeat
        and same_dict(a.children, b.children)
    )


def attrs_same_except(a, b, which):
    return (
        a.sensor_id == b.sensor_id
        and (which == "type" or a.type == b.type)
        and (which == "sketch_name" or a.sketch_name == b.sketch_name)
        and (which == "sketch_version" or a.sketch_version == b.sketch_version)
        and (which == "battery" or a._battery_level == b._battery_level)
        and (which == "type" or a._protocol_version == b._protocol_version)
        and (which == "heartbeat" or a._heartbeat == b._heartbeat)
    )


def fresh_node_view(s, n):
    return (
        s.sensor_id == n
        and s.sketch_name is None
        and s.sketch_version is None
        and s._battery_level == 0
        and s._heartbeat == 0
        and not s.children
        and not s.new_state
        and not s.queue
    )


def others_unchanged(gw, old_gw, n, m2):
    """every node other than n (and m2) has exactly the persisted view it had"""
    return forall(
        old_gw.sensors,
        lambda m: m == n or m == m2 or (m in gw.sensors and node_view_same(gw.sensors[m], old_gw.sensors[m])),
    )


@contract("mysensors:Gateway.logic", props=["C04"])
class LogicC04:
    configs = _configs
    setup = _setup

    def requires(self, data):
        return inv(self)

    raises = {}

    clause_when = {
        "node-presentation": lambda c: c.get("cmd") == 0,
        "child-presentation": lambda c: c.get("cmd") == 0,
        "set-value": lambda c: c.get("cmd") == 1,
        "attributes": lambda c: c.get("cmd") == 3,
        "read-only-kinds": lambda c: c.get("cmd") in (2, 4),
    }

    ensures = {
        # nodes appear only through node presentation or id assignment; nobody disappears
        "nodes-only-appear": lambda old, self, data, result: forall(old.self.sensors, lambda m: m in self.sensors)
        and forall(
            self.sensors,
            lambda m: m in old.self.sensors
            or (
                accepted(self.protocol_version, data)
                and (
                    (F(data)[2] == proto.PRESENTATION and F(data)[1] == 255 and m == F(data)[0])
                    or (F(data)[2] == proto.INTERNAL and F(data)[4] == proto.I_ID_REQUEST and 1 <= m and m <= 254)
                )
            ),
        ),
        # whatever the message, every other node keeps its view
        "others-unchanged": lambda old, self, data, result: not wire.decodable(data)
        or forall(
            old.self.sensors,
            lambda m: m == F(data)[0] or (m in self.sensors and node_view_same(self.sensors[m], old.self.sensors[m])),
        ),
        # node presentation: the node exists afterwards with the presented type and sanitised version; its children are kept
        "node-presentation": lambda old, self, data, result: not (
            accepted(self.protocol_version, data) and F(data)[2] == proto.PRESENTATION and F(data)[1] == 255
        )
        or (
            F(data)[0] in self.sensors
            and self.sensors[F(data)[0]].type == F(data)[4]
            and self.sensors[F(data)[0]]._protocol_version == proto.version_or_fallback(F(data)[5])
            and (
                (
                    F(data)[0] in old.self.sensors
                    and attrs_same_except(self.sensors[F(data)[0]], old.self.sensors[F(data)[0]], "type")
                    and same_dict(self.sensors[F(data)[0]].children, old.self.sensors[F(data)[0]].children)
                )
                or (F(data)[0] not in old.self.sensors and fresh_node_view(self.sensors[F(data)[0]], F(data)[0]))
            )
        ),
        # child presentation: to a known node, first presentation wins
        "child-presentation": lambda old, self, data, result: not (
            accepted(self.protocol_version, data) and F(data)[2] == proto.PRESENTATION and F(data)[1] != 255
        )
        or (
            (F(data)[0] in old.self.sensors) == (F(data)[0] in self.sensors)
            and (
                F(data)[0] not in old.self.sensors
                or (
                    attrs_same_except(self.sensors[F(data)[0]], old.self.sensors[F(data)[0]], "")
                    and forall(
                        old.self.sensors[F(data)[0]].children,
                        lambda c: c in self.sensors[F(data)[0]].children
                        and same_item(self.sensors[F(data)[0]].children, old.self.sensors[F(data)[0]].children, c),
                    )
                    and forall(
                        self.sensors[F(data)[0]].children,
                        lambda c: c in old.self.sensors[F(data)[0]].children or c == F(data)[1],
                    )
                    and F(data)[1] in self.sensors[F(data)[0]].children
                    and (
                        F(data)[1] in old.self.sensors[F(data)[0]].children
                        or (
                            self.sensors[F(data)[0]].children[F(data)[1]].id == F(data)[1]
                            and self.sensors[F(data)[0]].children[F(data)[1]].type == F(data)[4]
                            and self.sensors[F(data)[0]].children[F(data)[1]].description == F(data)[5]
                            and not self.sensors[F(data)[0]].children[F(data)[1]].values
                        )
                    )
                )
            )
        ),
        # set: the value is the last one reported for that node, child and value type; nothing else moves
        "set-value": lambda old, self, data, result: not (
            accepted(self.protocol_version, data) and F(data)[2] == proto.SET
        )
        or (
            (F(data)[0] in old.self.sensors) == (F(data)[0] in self.sensors)
            and (
                F(data)[0] not in old.self.sensors
                or (
                    attrs_same_except(self.sensors[F(data)[0]], old.self.sensors[F(data)[0]], "")
                    and forall(
                        "child",
                        lambda c: (c in self.sensors[F(data)[0]].children) == (c in old.self.sensors[F(data)[0]].children),
                    )
                    and forall(
                        old.self.sensors[F(data)[0]].children,
                        lambda c: self.sensors[F(data)[0]].children[c].id == old.self.sensors[F(data)[0]].children[c].id
                        and self.sensors[F(data)[0]].children[c].type == old.self.sensors[F(data)[0]].children[c].type
                        and self.sensors[F(data)[0]].children[c].description
                        == old.self.sensors[F(data)[0]].children[c].description,
                    )
                    and forall(
                        ("child", "vt"),
                        lambda c, vt: c not in old.self.sensors[F(data)[0]].children
                        or (c == F(data)[1] and vt == F(data)[4])
                        or (
                            (vt in self.sensors[F(data)[0]].children[c].values)
                            == (vt in old.self.sensors[F(data)[0]].children[c].values)
                            and self.sensors[F(data)[0]].children[c].values[vt]
                            == old.self.sensors[F(data)[0]].children[c].values[vt]
                        ),
                    )
                    and (
                        F(data)[1] not in old.self.sensors[F(data)[0]].children
                        or (
                            F(data)[4] in self.sensors[F(data)[0]].children[F(data)[1]].values
                            and self.sensors[F(data)[0]].children[F(data)[1]].values[F(data)[4]] == F(data)[5]
                        )
                    )
                )
            )
        ),
        # node attributes hold the last reported value, with safe fall-backs
        "attributes": lambda old, self, data, result: not (
            accepted(self.protocol_version, data) and F(data)[2] == proto.INTERNAL and F(data)[0] in old.self.sensors
        )
        or (
            F(data)[0] in self.sensors
            and same_dict(self.sensors[F(data)[0]].children, old.self.sensors[F(data)[0]].children)
            and (
                F(data)[4] != proto.I_BATTERY_LEVEL
                or (
                    self.sensors[F(data)[0]]._battery_level == proto.battery_or_fallback(F(data)[5])
                    and attrs_same_except(self.sensors[F(data)[0]], old.self.sensors[F(data)[0]], "battery")
                )
            )
            and (
                F(data)[4] != proto.I_SKETCH_NAME
                or (
                    self.sensors[F(data)[0]].sketch_name == F(data)[5]
                    and attrs_same_except(self.sensors[F(data)[0]], old.self.sensors[F(data)[0]], "sketch_name")
                )
            )
            and (
                F(data)[4] != proto.I_SKETCH_VERSION
                or (
                    self.sensors[F(data)[0]].sketch_version == F(data)[5]
                    and attrs_same_except(self.sensors[F(data)[0]], old.self.sensors[F(data)[0]], "sketch_version")
                )
            )
            and (
                not (proto.v2(self.protocol_version) and F(data)[4] == proto.I_HEARTBEAT_RESPONSE)
                or (
                    self.sensors[F(data)[0]]._heartbeat == proto.heartbeat_or_fallback(F(data)[5])
                    and attrs_same_except(self.sensors[F(data)[0]], old.self.sensors[F(data)[0]], "heartbeat")
                )
            )
            and (
                F(data)[4] == proto.I_BATTERY_LEVEL
                or F(data)[4] == proto.I_SKETCH_NAME
                or F(data)[4] == proto.I_SKETCH_VERSION
                or (proto.v2(self.protocol_version) and F(data)[4] == proto.I_HEARTBEAT_RESPONSE)
                or F(data)[4] == proto.I_ID_REQUEST
                or attrs_same_except(self.sensors[F(data)[0]], old.self.sensors[F(data)[0]], "")
            )
        ),
        # requests and stream traffic never change the reported view
        "read-only-kinds": lambda old, self, data, result: not (
            accepted(self.protocol_version, data) and (F(data)[2] == proto.REQ or F(data)[2] == proto.STREAM)
        )
        or forall(
            old.self.sensors, lambda m: m in self.sensors and node_view_same(self.sensors[m], old.self.sensors[m])
        ),
        # the event callback fires exactly once for an accepted state-changing message, never twice,
        # with that message's fields, and the state it sees is the state at return
        "events-at-most-one": lambda old, self, data, result: len(old.G_now.events) <= 1
        and (len(old.G_now.events) == 0 or (accepted(self.protocol_version, data) and event_matches(old, self, data))),
        "events-on-change": lambda old, self, data, result: len(old.G_now.events) == 1
        or (
            forall(old.self.sensors, lambda m: m in self.sensors and node_view_same(self.sensors[m], old.self.sensors[m]))
            and forall(self.sensors, lambda m: m in old.self.sensors)
        ),
    }


def event_matches(old, gw, data):
    e = old.G_now.events[0]
    return (
        e["node_id"] == F(data)[0]
        and e["child_id"] == F(data)[1]
        and e["type"] == F(data)[2]
        and e["ack"] == F(data)[3]
        and e["sub_type"] == F(data)[4]
        and e["payload"] == F(data)[5]
        and forall(gw.sensors, lambda m: m in e["sensors"] and node_view_same(gw.sensors[m], e["sensors"][m]))
        and forall(e["sensors"], lambda m: m in gw.sensors)
    )


