"""Controller calls: Gateway.set_child_value and OTAFirmware.make_update (C01 controller clause, C05, C07, C08, C10)."""
import struct

import voluptuous as vol

from pyvc.contract import Loop, as_str, contract, env, forall, frame_except, implies, is_none, is_prefix, is_str, same_dict, same_item
from pyvc.values import SeqVal
from spec import api, proto, wire

from . import summaries
from .c04_state import node_view_same
from .gw_logic import ota_unchanged
from .inv import i_children, i_desired, i_nodes, i_ota, i_queue, i_values, inv
from .loops_sleep import LOOPS
from .state import VERSIONS, make_gateway


def _setup_scv(h):
    gw = make_gateway(h, h.config.get("version", "1.4"))
    summaries.install(h.it)
    h.it.loop_contracts.update(LOOPS)
    args = [gw, h.sym("int", "sensor_id"), h.sym("int", "child_id"), h.sym("int", "value_type"), h.sym("str", "value")]
    kw = {}
    if h.config.get("ack"):
        kw["ack"] = h.sym("int", "ackflag")
    return args, kw


def desired_same_except(gw, old_gw, n, c0, vt0):
    """pending desired values: only (n, c0, vt0) may differ"""
    return forall(
        old_gw.sensors,
        lambda m: m in gw.sensors
        and forall(
            ("child", "vt"),
            lambda c, vt: (c in gw.sensors[m].new_state) == (c in old_gw.sensors[m].new_state)
            and (
                (m == n and c == c0 and vt == vt0)
                or (
                    (vt in gw.sensors[m].new_state[c].values) == (vt in old_gw.sensors[m].new_state[c].values)
                    and gw.sensors[m].new_state[c].values[vt] == old_gw.sensors[m].new_state[c].values[vt]
                )
            ),
        ),
    )


def view_same(gw, old_gw):
    return forall(old_gw.sensors, lambda m: m in gw.sensors and node_view_same(gw.sensors[m], old_gw.sensors[m])) and forall(
        gw.sensors, lambda m: m in old_gw.sensors
    )


def queues_same(gw, old_gw):
    return forall(old_gw.sensors, lambda m: m in gw.sensors and gw.sensors[m].queue == old_gw.sensors[m].queue)


def known(g, n, c):
    return n in g.sensors and c in g.sensors[n].children


@contract("mysensors:Gateway.set_child_value", props=["C01", "C05", "C07", "C08"])
class SetChildValue:
    configs = [{"version": v, "ack": a} for v in VERSIONS for a in (False, True)]
    setup = _setup_scv
    params = ["self", "sensor_id", "child_id", "value_type", "value", "ack"]

    def requires(self, sensor_id, child_id, value_type, value, ack=0):
        return inv(self)

    # a value that can not be sent as a valid command is refused to the caller, at call time
    raises = {ValueError: True, vol.Invalid: True}

    exc_ensures = {
        # a refused call changes nothing (beyond asking an unknown node to present itself)
        "refused-no-effect": lambda old, self, sensor_id, child_id, value_type, value, exc, ack=0: same_dict(
            self.sensors, old.self.sensors
        )
        and old.G_now.sent == old.G.sent,
    }

    ensures = {
        # a call that returned normally can not make later processing raise: Inv is kept
        "inv.nodes": lambda old, self, sensor_id, child_id, value_type, value, result, ack=0: i_nodes(self),
        "inv.children": lambda old, self, sensor_id, child_id, value_type, value, result, ack=0: i_children(self),
        "inv.values": lambda old, self, sensor_id, child_id, value_type, value, result, ack=0: i_values(self),
        # accepted => deliverable: the recorded desired value is a valid set payload under the gateway's version
        "inv.desired": lambda old, self, sensor_id, child_id, value_type, value, result, ack=0: i_desired(self),
        "inv.queue": lambda old, self, sensor_id, child_id, value_type, value, result, ack=0: i_queue(self),
        "view-untouched": lambda old, self, sensor_id, child_id, value_type, value, result, ack=0: view_same(self, old.self)
        and ota_unchanged(self, old.self),
        # unknown node or child: nothing but (>= 2.0) one presentation request
        "unknown": lambda old, self, sensor_id, child_id, value_type, value, result, ack=0: known(old.self, sensor_id, child_id)
        or (
            desired_same_except(self, old.self, -1, -1, -1)
            and (
                (
                    not proto.v2(self.protocol_version)
                    and old.G_now.sent == old.G.sent
                    and queues_same(self, old.self)
                )
                or (
                    proto.v2(self.protocol_version)
                    and not proto.sleeping(old.self, sensor_id)
                    and old.G_now.sent == old.G.sent + [wire.canon(sensor_id, 255, proto.INTERNAL, 0, proto.I_PRESENTATION, "")]
                    and queues_same(self, old.self)
                )
                or (
                    proto.v2(self.protocol_version)
                    and proto.sleeping(old.self, sensor_id)
                    and old.G_now.sent == old.G.sent
                    and self.sensors[sensor_id].queue
                    == old.self.sensors[sensor_id].queue + [wire.canon(sensor_id, 255, proto.INTERNAL, 0, proto.I_PRESENTATION, "")]
                )
            )
        ),
        # sleeping node: nothing leaves the gateway; the value is recorded as desired state
        "sleeping": lambda old, self, sensor_id, child_id, value_type, value, result, ack=0: not (
            known(old.self, sensor_id, child_id) and proto.sleeping(old.self, sensor_id)
        )
        or (
            old.G_now.sent == old.G.sent
            and queues_same(self, old.self)
            and desired_same_except(self, old.self, sensor_id, child_id, value_type)
            and value_type in self.sensors[sensor_id].new_state[child_id].values
            and self.sensors[sensor_id].new_state[child_id].values[value_type] == value
        ),
        # awake node: exactly one validated set command, at once
        "awake": lambda old, self, sensor_id, child_id, value_type, value, result, ack=0: not (
            known(old.self, sensor_id, child_id) and not proto.sleeping(old.self, sensor_id)
        )
        or (
            old.G_now.sent == old.G.sent + [wire.canon(sensor_id, child_id, proto.SET, ack, value_type, value)]
            and queues_same(self, old.self)
            and desired_same_except(self, old.self, -1, -1, -1)
            and api.valid(self.protocol_version, sensor_id, child_id, proto.SET, ack, value_type, value)
            and wire.carriable(value) == (value.rstrip() == value)
        ),
    }


# ------------------------------------------------------------------------------------------- make_update
def pad_inv(L, old, G, i):
    """for _ in range(128 - pads): bin_string grows by one 0xFF per iteration"""
    return L.bin_string == old.bin_string + ff(i) and 0 <= i and i <= 128


def ff(n):
    return b"\xff" * n


def _setup_mu(h):
    from pyvc.core import BYTES

    gw = make_gateway(h, h.config.get("version", "2.0"))
    summaries.install(h.it)
    ota = gw.fields["tasks"].fields["ota"]
    h.it.env["gw"] = gw
    shape = h.config.get("nids", "one")
    if shape == "one":
        nids = h.sym("int", "nid")
    else:
        nids = [h.sym("int", "nid_a"), h.sym("int", "nid_b")]
    fw_bin = None
    if h.config.get("bin"):
        fw_bin = SeqVal("byte", h.ctx.fresh_term(BYTES, "fw_bin"), "bytes")
    return [ota, nids, h.sym("int", "fw_type"), h.sym("int", "fw_ver"), fw_bin], {}, {"gw": gw}


def in_nids(nids, m):
    return (m == nids) if not isinstance(nids, list) else (m == nids[0] or m == nids[1])


@contract("mysensors.ota:OTAFirmware.make_update", props=["C01", "C10"])
class MakeUpdate:
    configs = [{"nids": n, "bin": b} for n in ("one", "two") for b in (False, True)]
    setup = _setup_mu
    loops = {("mysensors.ota", "prepare_fw", 0): Loop(pad_inv)}

    def requires(self, nids, fw_type, fw_ver, fw_bin):
        # images that fit the 16-bit block counter
        return inv(env("gw")) and (fw_bin is None or len(fw_bin) + 128 <= 65535 * 16)

    raises = {}

    ensures = {
        "inv.ota": lambda old, self, nids, fw_type, fw_ver, fw_bin, result: i_ota(old.gw_now),
        # the update session of every scheduled known node restarts from the config step; nobody else is touched
        "stores": lambda old, self, nids, fw_type, fw_ver, fw_bin, result: forall(
            "node",
            lambda m: (
                scheduled(old, self, nids, fw_type, fw_ver, fw_bin, m)
                and m in self.requested
                and self.requested[m] == (fw_type, fw_ver)
                and m not in self.unstarted
                and m not in self.started
            )
            or (
                not scheduled(old, self, nids, fw_type, fw_ver, fw_bin, m)
                and (m in self.requested) == (m in old.self.requested)
                and (m in self.unstarted) == (m in old.self.unstarted)
                and (m in self.started) == (m in old.self.started)
                and self.requested[m] == old.self.requested[m]
                and self.unstarted[m] == old.self.unstarted[m]
                and self.started[m] == old.self.started[m]
            ),
        ),
        "reboot-flags": lambda old, self, nids, fw_type, fw_ver, fw_bin, result: forall(
            old.gw.sensors,
            lambda m: m in old.gw_now.sensors
            and node_view_same(old.gw_now.sensors[m], old.gw.sensors[m])
            and old.gw_now.sensors[m].queue == old.gw.sensors[m].queue
            and same_dict(old.gw_now.sensors[m].new_state, old.gw.sensors[m].new_state)
            and old.gw_now.sensors[m].reboot == (old.gw.sensors[m].reboot or scheduled(old, self, nids, fw_type, fw_ver, fw_bin, m)),
        )
        and forall(old.gw_now.sensors, lambda m: m in old.gw.sensors),
        # a supplied image is stored padded to whole pages with 0xFF; other firmware entries are untouched
        "firmware": lambda old, self, nids, fw_type, fw_ver, fw_bin, result: forall(
            ("fwt", "fwv"),
            lambda t, v: (
                fw_bin is not None
                and valid_id(fw_type, fw_ver)
                and t == fw_type
                and v == fw_ver
                and (t, v) in self.firmware
                and self.firmware[t, v]["data"] == fw_bin + ff(len(self.firmware[t, v]["data"]) - len(fw_bin))
                and len(self.firmware[t, v]["data"]) % 128 == 0
                and 0 <= len(self.firmware[t, v]["data"]) - len(fw_bin)
                and len(self.firmware[t, v]["data"]) - len(fw_bin) <= 128
                and self.firmware[t, v]["blocks"] * 16 == len(self.firmware[t, v]["data"])
            )
            or (
                not (fw_bin is not None and valid_id(fw_type, fw_ver) and t == fw_type and v == fw_ver)
                and ((t, v) in self.firmware) == ((t, v) in old.self.firmware)
                and self.firmware[t, v]["data"] == old.self.firmware[t, v]["data"]
                and self.firmware[t, v]["blocks"] == old.self.firmware[t, v]["blocks"]
                and self.firmware[t, v]["crc"] == old.self.firmware[t, v]["crc"]
            ),
        ),
    }


def valid_id(t, v):
    return 0 <= t and t <= 65535 and 0 <= v and v <= 65535


def scheduled(old, ota, nids, fw_type, fw_ver, fw_bin, m):
    """node m is (re)scheduled by this call: it was named, is known, and firmware for (type, version) exists"""
    return (
        in_nids(nids, m)
        and m in old.gw.sensors
        and valid_id(fw_type, fw_ver)
        and (fw_bin is not None or (fw_type, fw_ver) in old.self.firmware)
    )


