"""The gateway invariant Inv (DESIGN section 6), as interpreted predicates.

Each conjunct is a separate function so that a failing obligation names it.  They are
assumed by `requires` of every operation and re-established by `ensures` (inductive)."""
from pyvc.contract import forall, forall2, forall3, implies


def i_nodes(gw):
    """I-shape, node level: ids in 0..255 and each Sensor knows its own id."""
    return forall(gw.sensors, lambda n: 0 <= n and n <= 255 and gw.sensors[n].sensor_id == n)


def i_children(gw):
    """I-shape, child level: child ids 0..254, each child knows its id; desired state only for known children."""
    return forall2(
        gw.sensors,
        lambda n: gw.sensors[n].children,
        lambda n, c: 0 <= c and c <= 254 and gw.sensors[n].children[c].id == c,
    ) and forall2(
        gw.sensors,
        lambda n: gw.sensors[n].new_state,
        lambda n, c: c in gw.sensors[n].children and gw.sensors[n].new_state[c].id == c,
    )


def inv_shape(gw):
    return i_nodes(gw) and i_children(gw)
