"""The gateway invariant Inv (DESIGN section 6), as interpreted predicates.

Each conjunct is a separate function so that a failing obligation names it.  They are
assumed by `requires` of every operation and re-established by `ensures` (inductive)."""
from pyvc.contract import all_addressed, as_str, forall, forall2, forall3, implies, is_none, is_str
from spec import api, wire


def i_nodes(gw):
    """I-shape, node level: ids in 0..255 and each Sensor knows its own id."""
    return forall(gw.sensors, lambda n: 0 <= n and n <= 255 and gw.sensors[n].sensor_id == n)


def i_children(gw):
    """I-shape, child level: child ids 0..254, each child knows its id; desired state only for known children."""
    return forall2(
        gw.sensors,
        lambda n: gw.sensors[n].children,
        lambda n, c: 0 <= c and c <= 254 and gw.sensors[n].children[c].id == c,
    ) and forall2(
        gw.sensors,
        lambda n: gw.sensors[n].new_state,
        lambda n, c: c in gw.sensors[n].children and gw.sensors[n].new_state[c].id == c,
    )


def value_ok(version, vt, x):
    """a stored value: text the wire can carry that is a valid `set` payload for its type in `version`"""
    return (
        is_str(x)
        and api.defined(version, api.SET, vt)
        and api.payload_ok_set(version, vt, as_str(x))
        and wire.carriable(as_str(x))
    )


def i_values(gw):
    """I-values: every reported value re-validates under the gateway's version (it was validated when it came in)."""
    return forall3(
        gw.sensors,
        lambda n: gw.sensors[n].children,
        lambda n, c: gw.sensors[n].children[c].values,
        lambda n, c, vt: value_ok(gw.protocol_version, vt, gw.sensors[n].children[c].values[vt]),
    )


def desired_ok(version, vt, x):
    """a pending desired value: text that create_message_to_set_sensor_value accepts again at every wake-up,
    i.e. a valid `set` payload for its type in `version` without the field delimiter.  (Blanks at the end are
    allowed here: the command carries them to the node; only the gateway's own decoder strips them.)"""
    return is_str(x) and api.defined(version, api.SET, vt) and api.payload_ok_set(version, vt, as_str(x)) and ";" not in as_str(x)


def i_desired(gw):
    """I-desired: every pending desired value is deliverable as a valid set command (accepted => deliverable, C08)."""
    return forall3(
        gw.sensors,
        lambda n: gw.sensors[n].new_state,
        lambda n, c: gw.sensors[n].new_state[c].values,
        lambda n, c, vt: is_none(gw.sensors[n].new_state[c].values[vt])
        or desired_ok(gw.protocol_version, vt, gw.sensors[n].new_state[c].values[vt]),
    )


def i_queue(gw):
    """I-queue: what is withheld for a node is addressed to that node, and only a node that has announced smart
    sleep has anything withheld (C07: the wake-up burst goes to the woken node and nowhere else)."""
    return forall(
        gw.sensors,
        lambda n: all_addressed(gw.sensors[n].queue, n) and (not gw.sensors[n].queue or bool(gw.sensors[n].new_state)),
    )


def word(x):
    return 0 <= x and x <= 65535


def i_ota(gw):
    """I-ota: every scheduled (type, version) and every firmware entry fits the 16-bit wire fields;
    the stored image is whole blocks."""
    return (
        forall(gw.tasks.ota.requested, lambda n: word(gw.tasks.ota.requested[n][0]) and word(gw.tasks.ota.requested[n][1]))
        and forall(gw.tasks.ota.unstarted, lambda n: word(gw.tasks.ota.unstarted[n][0]) and word(gw.tasks.ota.unstarted[n][1]))
        and forall(gw.tasks.ota.started, lambda n: word(gw.tasks.ota.started[n][0]) and word(gw.tasks.ota.started[n][1]))
        and forall(
            gw.tasks.ota.firmware,
            lambda t, v: word(t)
            and word(v)
            and word(gw.tasks.ota.firmware[t, v]["blocks"])
            and word(gw.tasks.ota.firmware[t, v]["crc"])
            and len(gw.tasks.ota.firmware[t, v]["data"]) == 16 * gw.tasks.ota.firmware[t, v]["blocks"],
        )
    )


def inv_shape(gw):
    return i_nodes(gw) and i_children(gw)


def inv(gw):
    return i_nodes(gw) and i_children(gw) and i_values(gw) and i_desired(gw) and i_ota(gw) and i_queue(gw)
