"""C06 - node ids are never handed out twice: allocation and reservation."""
from pyvc.contract import contract, forall, implies, same_dict

from .inv import i_nodes, inv_shape
from .state import make_gateway


@contract("mysensors:Gateway._get_next_id", props=["C06"])
class GetNextId:
    def setup(h):
        return [make_gateway(h, h.config.get("version", "1.4"))], {}

    def requires(self):
        return i_nodes(self)

    raises = {}

    ensures = {
        # fresh-or-none: an id is in 1..254 and differs from every known node
        "fresh": lambda old, self, result: result is None or (1 <= result and result <= 254 and result not in self.sensors),
        "pure": lambda old, self, result: same_dict(self.sensors, old.self.sensors),
        # None only once the allocator has something to be full of
        "none-only-when-nonempty": lambda old, self, result: implies(result is None, bool(self.sensors)),
        "above-all-known": lambda old, self, result: implies(
            result is not None, forall(self.sensors, lambda k: k < result)
        ),
    }


@contract("mysensors:Gateway.add_sensor", props=["C06", "C04"])
class AddSensor:
    def setup(h):
        gw = make_gateway(h, h.config.get("version", "1.4"))
        k = h.ctx.choose([True, True], labels=["id-none", "id-given"], site="setup")
        sid = None if k == 0 else h.sym("int", "sensorid")
        return [gw, sid], {}

    def requires(self, sensorid):
        return inv_shape(self) and (sensorid is None or (0 <= sensorid and sensorid <= 255))

    raises = {}

    ensures = {
        # allocation: a fresh id in 1..254, or nothing at all
        "alloc-fresh": lambda old, self, sensorid, result: implies(
            sensorid is None,
            (result is None and same_dict(self.sensors, old.self.sensors))
            or (result is not None and 1 <= result and result <= 254 and result not in old.self.sensors),
        ),
        # no-overwrite: an existing node is left exactly as it was
        "no-overwrite": lambda old, self, sensorid, result: implies(
            sensorid is not None and sensorid in old.self.sensors,
            result == sensorid and same_dict(self.sensors, old.self.sensors),
        ),
        "given-added": lambda old, self, sensorid, result: implies(
            sensorid is not None, result == sensorid and sensorid in self.sensors
        ),
        # the only change is the one new node, created with constructor defaults
        "frame": lambda old, self, sensorid, result: forall(
            old.self.sensors, lambda n: n in self.sensors and same_node(self, old.self, n)
        ),
        "only-result-added": lambda old, self, sensorid, result: forall(
            self.sensors, lambda n: n in old.self.sensors or n == result
        ),
        "new-node-defaults": lambda old, self, sensorid, result: (
            result is None or result in old.self.sensors or fresh_node(self, result)
        ),
        "inv": lambda old, self, sensorid, result: inv_shape(self),
    }


def same_node(gw, gw_old, n):
    a = gw.sensors[n]
    b = gw_old.sensors[n]
    return (
        a.sensor_id == b.sensor_id
        and a.type == b.type
        and a.sketch_name == b.sketch_name
        and a.sketch_version == b.sketch_version
        and a.battery_level == b.battery_level
        and a.protocol_version == b.protocol_version
        and a.heartbeat == b.heartbeat
        and a.reboot == b.reboot
        and a.queue == b.queue
        and same_dict(a.children, b.children)
        and same_dict(a.new_state, b.new_state)
    )


def fresh_node(gw, n):
    s = gw.sensors[n]
    return (
        s.sensor_id == n
        and s.type is None
        and s.sketch_name is None
        and s.sketch_version is None
        and s.battery_level == 0
        and s.protocol_version == "1.4"
        and s.heartbeat == 0
        and not s.reboot
        and not s.children
        and not s.new_state
        and not s.queue
    )
