MODULES = [
    "contracts.c06_ids",
]
