MODULES = [
    "contracts.c06_ids",
    "contracts.c03_validate",
    "contracts.c03_finite",
    "contracts.gw_logic",
    "contracts.c04_state",
]
