MODULES = [
    "contracts.c06_ids",
    "contracts.c03_validate",
    "contracts.c03_finite",
    "contracts.gw_logic",
    "contracts.c04_state",
    "contracts.c05_replies",
    "contracts.gw_more",
    "contracts.gw_calls",
    "contracts.c02_codec",
    "contracts.c09_ota",
]
