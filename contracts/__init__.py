MODULES = [
    "contracts.c06_ids",
    "contracts.c03_validate",
    "contracts.c03_finite",
]
