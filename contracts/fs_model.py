"""Ghost file system for C12/C13/C15 (DESIGN 5.6): crashes and I/O faults around Persistence.

State (Python-level on one path; contents are symbolic):
  names:   path -> Inode | None          what the process sees (directory as currently in memory)
  durable: path -> Inode | None          the directory as it is on disk
  pending: list of directory operations not yet on disk ("rename" a b | "remove" a | "create" a inode)
  Inode:   cur  - content the process sees,  dur - content that survives a crash
A content is an integer term; `good(c)` (it decodes) and `view(c)` (what it decodes to) are
uninterpreted.  Crash states at a point: the durable directory with any *prefix* of the pending
operations applied (ordered metadata journalling), each inode with its durable content; the
variant "no loss of unsynced data" is the in-memory directory with the current contents.
Assumptions (T-fs): rename/remove are atomic; directory operations are not reordered among
themselves; file data is durable only after fsync; a failing operation has no or a partial effect.
"""
import os

import z3

from pyvc import ops
from pyvc.core import INT, BOOL, ExcVal, PyRaise, SV, Unsupported
from pyvc.values import ModelFn, Obj, Opaque

good = z3.Function("fs_good", INT, BOOL)  # the content decodes without error
view = z3.Function("fs_view", INT, INT)  # the view it decodes to
fs_size = z3.Function("fs_size", INT, INT)  # length in bytes of a content
ABSENT_VIEW = z3.IntVal(0)  # "no state": what a start-up without any usable file yields
EMPTY_CONTENT = z3.IntVal(-1)  # a zero-length file


class Inode:
    _pyvc_symbolic = True
    n = 0

    def __init__(self, cur, dur, label):
        self.cur, self.dur, self.label = cur, dur, label
        Inode.n += 1
        self.id = Inode.n


class FS:
    _pyvc_symbolic = True

    def __init__(self, it, main, bak, tmp):
        self.it = it
        self.paths = {"main": main, "bak": bak, "tmp": tmp}
        self.names = {}
        self.durable = {}
        self.pending = []
        self.ops = []  # log of operations performed (for reports and fault positions)
        self.fault_at = None  # index of the operation that fails on this path (None: no fault)
        self.crash_points = []
        self.obligation_hook = None

    # ---- construction of the prior on-disk configuration
    def add_file(self, key, content, label):
        ino = Inode(content, content, label)
        p = self.paths[key]
        self.names[p] = ino
        self.durable[p] = ino
        return ino

    def key_of(self, path):
        path = os.path.realpath(path) if isinstance(path, str) else path
        for k, p in self.paths.items():
            if os.path.realpath(p) == path:
                return k
        raise Unsupported(f"file operation on an unmodelled path {path}")

    def p(self, path):
        return self.paths[self.key_of(path)]

    # ---- operation bookkeeping
    def step(self, name, path=None):
        """Called at the start of every file operation: crash point + possible fault."""
        idx = len(self.ops)
        self.ops.append((name, path))
        if self.obligation_hook is not None:
            self.obligation_hook(self, idx, name, path)
        return self.fault_at is not None and self.fault_at == idx

    def fail(self, name):
        # the failing operation raises OSError or one of its subclasses (a handler that singles one out - "a missing
        # file is fine" - is a path of its own)
        classes = [OSError, FileNotFoundError, PermissionError]
        kk = self.it.ctx.choose([z3.BoolVal(True)] * len(classes), labels=[c.__name__ for c in classes], site=f"fs:{name}:class")
        raise PyRaise(ExcVal(classes[kk], (f"injected fault in {name}",), site=f"fs:{name}"))

    # ---- crash states
    def crash_states(self, lose_unsynced=True):
        """List of dicts path -> content term or None."""
        if not lose_unsynced:
            return [{p: (i.cur if i is not None else None) for p, i in self.names.items()}]
        states = []
        d = dict(self.durable)
        states.append({p: (i.dur if i is not None else None) for p, i in d.items()})
        for op in self.pending:
            if op[0] == "rename":
                _, a, b = op
                d[b] = d.get(a)
                d[a] = None
            elif op[0] == "remove":
                d[op[1]] = None
            elif op[0] == "create":
                d[op[1]] = op[2]
            states.append({p: (i.dur if i is not None else None) for p, i in d.items()})
        return states

    def recover_term(self, state):
        """The contract of safe_load_sensors as a term: main if it decodes, else the backup if it
        exists and decodes, else nothing."""
        main = state.get(self.paths["main"])
        bak = state.get(self.paths["bak"])
        bak_view = ABSENT_VIEW if bak is None else z3.If(good(bak), view(bak), ABSENT_VIEW)
        if main is None:
            return bak_view
        return z3.If(good(main), view(main), bak_view)


# --------------------------------------------------------------------------- models of os / open / dump
class FileHandle:
    _pyvc_symbolic = True

    def __init__(self, fs, path, mode, ino):
        self.fs, self.path, self.mode, self.ino = fs, path, mode, ino
        self.closed = False
        self.buffer = None

    def _pyvc_attr(self, it, name):
        fn = it.fs_handle_methods.get(name)
        if fn is None:
            raise Unsupported(f"file handle attribute {name}")
        return ModelFn(f"file.{name}", lambda it2, a, k, _f=fn: _f(it2, self, a, k))


def install(it, fs):
    import json
    import pickle

    it.env["fs"] = fs
    ctx = it.ctx
    ctx.add_fact(z3.Not(good(EMPTY_CONTENT)))  # a zero-length file does not decode (json and pickle both raise)

    def m_isfile(it2, a, k):
        return fs.names.get(fs.p(a[0])) is not None

    def m_access(it2, a, k):
        # permission checks succeed (a denied save returns early without touching anything)
        return True

    def m_open(it2, a, k):
        path, mode = a[0], (a[1] if len(a) > 1 else k.get("mode", "r"))
        p = fs.p(path)
        if "w" in mode:
            if fs.step("open", p):
                fs.fail("open")
            ino = fs.names.get(p)
            if ino is None:
                ino = Inode(EMPTY_CONTENT, EMPTY_CONTENT, "new")
                fs.names[p] = ino
                fs.pending.append(("create", p, ino))
            else:
                # truncation: the process sees an empty file; whether that is on disk yet is unknown
                ino.cur = EMPTY_CONTENT
                b = ctx.fresh_term(BOOL, "trunc_durable")
                ino.dur = z3.If(b, EMPTY_CONTENT, ino.dur)
            return FileHandle(fs, p, mode, ino)
        ino = fs.names.get(p)
        if ino is None:
            raise PyRaise(ExcVal(FileNotFoundError, (path,), site="fs:open"))
        return FileHandle(fs, p, mode, ino)

    def fh_attr(it2, obj, node):
        raise Unsupported("file handle attribute")

    def m_dump(kind):
        def fn(it2, a, k):
            fh = a[1]
            new = it2.env["new_content"]
            # the serialiser writes in several chunks: after any of them a fault may stop it
            if fs.step(f"{kind}.dump:write-first", fh.path):
                fh.ino.cur = ctx.fresh_term(INT, "partial")
                fh.ino.dur = ctx.fresh_term(INT, "partial_dur")
                exc = it2.env.get("dump_fault", OSError)
                raise PyRaise(ExcVal(exc, ("injected fault while writing",), site=f"fs:{kind}.dump"))
            fh.ino.cur = ctx.fresh_term(INT, "partial")
            fh.ino.dur = ctx.fresh_term(INT, "partial_dur")
            if fs.step(f"{kind}.dump:write-rest", fh.path):
                exc = it2.env.get("dump_fault", OSError)
                raise PyRaise(ExcVal(exc, ("injected fault while writing",), site=f"fs:{kind}.dump"))
            # the serialiser writes into the file object's user-space buffer: the operating system has seen
            # some prefix of it (a large state is flushed piecewise), the disk anything, until flush + fsync
            fh.buffer = new
            fh.ino.cur = ctx.fresh_term(INT, "os_has_prefix")
            fh.ino.dur = ctx.fresh_term(INT, "unsynced")
            return None

        return fn

    def m_load(kind):
        def fn(it2, a, k):
            if len(a) != 1 or set(k) - {"cls"}:
                # the model of a load is "all or nothing": either the complete view or an exception.  That is a fact
                # about json.load / pickle.load called with the file (and the decoder class) only; a decoder that is
                # handed anything else (the live registry, hooks) can act before the document is known to be complete
                raise Unsupported(f"{kind}.load with arguments outside the model: {sorted(k)}")
            fh = a[0]
            c = fh.ino.cur
            if it2.branch(good(c)):
                return Opaque("decoded:" + kind, None) if False else LoadedView(view(c))
            # damaged content: the library raises one of its documented exception classes
            classes = it2.env.get(f"{kind}_errors")
            kk = ctx.choose([z3.BoolVal(True)] * len(classes), labels=[c_.__name__ for c_ in classes], site=f"{kind}.load")
            raise PyRaise(ExcVal(classes[kk], ("damaged file",), site=f"fs:{kind}.load"))

        return fn

    def m_fsync(it2, a, k):
        fh = a[0]
        if fs.step("fsync", fh.path):
            fs.fail("fsync")
        fh.ino.dur = fh.ino.cur
        return None

    def m_rename(it2, a, k):
        src, dst = fs.p(a[0]), fs.p(a[1])
        if fs.step("rename", (src, dst)):
            fs.fail("rename")
        ino = fs.names.get(src)
        if ino is None:
            raise PyRaise(ExcVal(FileNotFoundError, (src,), site="fs:rename"))
        fs.names[dst] = ino
        fs.names[src] = None
        fs.pending.append(("rename", src, dst))
        return None

    def m_link(it2, a, k):
        src, dst = fs.p(a[0]), fs.p(a[1])
        if fs.step("link", (src, dst)):
            fs.fail("link")
        ino = fs.names.get(src)
        if ino is None:
            raise PyRaise(ExcVal(FileNotFoundError, (src,), site="fs:link"))
        if fs.names.get(dst) is not None:
            raise PyRaise(ExcVal(FileExistsError, (17, "File exists", dst), site="fs:link"))
        fs.names[dst] = ino
        fs.pending.append(("create", dst, ino))
        return None

    def m_remove(it2, a, k):
        p = fs.p(a[0])
        if fs.step("remove", p):
            fs.fail("remove")
        if fs.names.get(p) is None:
            raise PyRaise(ExcVal(FileNotFoundError, (p,), site="fs:remove"))
        fs.names[p] = None
        fs.pending.append(("remove", p))
        return None

    def m_getsize(it2, a, k):
        ino = fs.names.get(fs.p(a[0]))
        if ino is None:
            raise PyRaise(ExcVal(FileNotFoundError, (fs.p(a[0]),), site="fs:getsize"))
        sz = fs_size(ino.cur)
        ctx.add_fact(sz >= 0)
        ctx.add_fact((sz == 0) == (ino.cur == EMPTY_CONTENT))
        return SV("int", sz)

    it.models[id(os.path.getsize)] = ModelFn("os.path.getsize", m_getsize)
    it.models[id(os.path.isfile)] = ModelFn("os.path.isfile", m_isfile)
    it.models[id(os.access)] = ModelFn("os.access", m_access)
    it.models[id(open)] = ModelFn("open", m_open)
    it.models[id(os.fsync)] = ModelFn("os.fsync", m_fsync)
    it.models[id(os.rename)] = ModelFn("os.rename", m_rename)
    it.models[id(os.remove)] = ModelFn("os.remove", m_remove)
    it.models[id(os.unlink)] = ModelFn("os.unlink", m_remove)
    it.models[id(os.replace)] = ModelFn("os.replace", m_rename)
    it.models[id(os.link)] = ModelFn("os.link", m_link)
    it.models[id(json.dump)] = ModelFn("json.dump", m_dump("json"))
    it.models[id(pickle.dump)] = ModelFn("pickle.dump", m_dump("pickle"))
    it.models[id(json.load)] = ModelFn("json.load", m_load("json"))
    it.models[id(pickle.load)] = ModelFn("pickle.load", m_load("pickle"))
    it.fs_handle_methods = {
        "__enter__": lambda it2, fh, a, k: fh,
        "__exit__": lambda it2, fh, a, k: _close(fs, fh),
        "flush": lambda it2, fh, a, k: _flush(fs, fh),
        "fileno": lambda it2, fh, a, k: fh,
        "close": lambda it2, fh, a, k: _close(fs, fh),
    }


class LoadedView:
    """What json.load / pickle.load returned: a mapping standing for one complete saved view."""

    _pyvc_symbolic = True

    def __init__(self, view_term):
        self.view = view_term


def _flush(fs, fh):
    if fs.step("flush", fh.path):
        fs.fail("flush")
    if getattr(fh, "buffer", None) is not None:
        fh.ino.cur = fh.buffer  # the buffered data reaches the operating system (not yet the disk)
    return None


def _close(fs, fh):
    if not fh.closed:
        fh.closed = True
        if "w" in fh.mode:
            if fs.step("close", fh.path):
                fs.fail("close")
            if getattr(fh, "buffer", None) is not None:
                fh.ino.cur = fh.buffer  # close() flushes
    return False
