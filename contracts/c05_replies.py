"""C05 - every reply is the prescribed one, well formed and correctly addressed (entry contract on logic)."""
from pyvc.contract import as_str, contract, forall, implies, is_none, is_prefix, is_str, same_dict
from spec import api, proto, wire

from .gw_logic import _configs, _setup, accepted
from .inv import inv

F = wire.fields


def desired_or_actual(sensor, c, vt):
    """the pending desired value if there is one, else the last reported value, else None"""
    return (
        sensor.new_state[c].values[vt]
        if (c in sensor.new_state and vt in sensor.new_state[c].values and not is_none(sensor.new_state[c].values[vt]))
        else (sensor.children[c].values[vt] if vt in sensor.children[c].values else None)
    )


def delivered(old, gw, result, n, line):
    """`line` is what the gateway emits for node n: returned for sending if n is awake (or unknown),
    withheld in n's queue if n is asleep; exactly once either way."""
    return (
        (
            proto.sleeping(old.self, n)
            and result is None
            and gw.sensors[n].queue == old.self.sensors[n].queue + [line]
        )
        or (
            not proto.sleeping(old.self, n)
            and result == line
        )
    )


def silent(old, gw, result, n):
    """nothing is returned for sending and nothing is withheld for node n"""
    return result is None and (n not in old.self.sensors or gw.sensors[n].queue == old.self.sensors[n].queue)


@contract("mysensors:Gateway.logic", props=["C05"])
class LogicC05:
    configs = _configs
    setup = _setup

    def requires(self, data):
        return inv(self)

    raises = {}

    # clauses guarded by a message kind are only evaluated in the configurations that admit that kind
    clause_when = {
        "req": lambda c: c.get("cmd") == 2,
        "config": lambda c: c.get("cmd") == 3 and c.get("subs") in (1, None),
        "time": lambda c: c.get("cmd") == 3 and c.get("subs") in (1, None),
        "id-request": lambda c: c.get("cmd") == 3 and c.get("subs") in (1, None),
        "gateway-ready": lambda c: c.get("cmd") == 3 and c.get("subs") in (1, None),
    }

    ensures = {
        # a value request is answered with a set carrying the pending desired, else the latest reported value; else nothing
        "req": lambda old, self, data, result: not (accepted(self.protocol_version, data) and F(data)[2] == proto.REQ)
        or not (F(data)[0] in old.self.sensors and F(data)[1] in old.self.sensors[F(data)[0]].children)
        or (
            (
                is_none(desired_or_actual(old.self.sensors[F(data)[0]], F(data)[1], F(data)[4]))
                and silent(old, self, result, F(data)[0])
            )
            or (
                is_str(desired_or_actual(old.self.sensors[F(data)[0]], F(data)[1], F(data)[4]))
                and delivered(
                    old,
                    self,
                    result,
                    F(data)[0],
                    wire.canon(
                        F(data)[0],
                        F(data)[1],
                        proto.SET,
                        F(data)[3],
                        F(data)[4],
                        as_str(desired_or_actual(old.self.sensors[F(data)[0]], F(data)[1], F(data)[4])),
                    ),
                )
            )
        ),
        # config request: M or I
        "config": lambda old, self, data, result: not (
            accepted(self.protocol_version, data) and F(data)[2] == proto.INTERNAL and F(data)[4] == proto.I_CONFIG
        )
        or delivered(
            old,
            self,
            result,
            F(data)[0],
            wire.canon(F(data)[0], F(data)[1], proto.INTERNAL, 0, proto.I_CONFIG, "M" if old.self.metric else "I"),
        ),
        # time request: the controller's local time in seconds
        "time": lambda old, self, data, result: not (
            accepted(self.protocol_version, data) and F(data)[2] == proto.INTERNAL and F(data)[4] == proto.I_TIME
        )
        or delivered(
            old,
            self,
            result,
            F(data)[0],
            wire.canon(F(data)[0], F(data)[1], proto.INTERNAL, 0, proto.I_TIME, str(old.G_now.localtime)),
        ),
        # id request: an id response carrying the reserved id, or nothing when none can be allocated
        "id-request": lambda old, self, data, result: not (
            accepted(self.protocol_version, data) and F(data)[2] == proto.INTERNAL and F(data)[4] == proto.I_ID_REQUEST
        )
        or (
            result is None
            and forall(self.sensors, lambda m: m in old.self.sensors)
            and (F(data)[0] not in old.self.sensors or self.sensors[F(data)[0]].queue == old.self.sensors[F(data)[0]].queue)
        )
        or (
            old.G_now.new_id is not None
            and old.G_now.new_id not in old.self.sensors
            and old.G_now.new_id in self.sensors
            and delivered(
                old,
                self,
                result,
                F(data)[0],
                wire.canon(F(data)[0], F(data)[1], proto.INTERNAL, 0, proto.I_ID_RESPONSE, str(old.G_now.new_id)),
            )
        ),
        # gateway ready (>= 2.0): a broadcast discover request; before 2.0 silence
        "gateway-ready": lambda old, self, data, result: not (
            accepted(self.protocol_version, data) and F(data)[2] == proto.INTERNAL and F(data)[4] == proto.I_GATEWAY_READY
        )
        or (
            (proto.v2(self.protocol_version) and delivered(old, self, result, 255, wire.canon(255, F(data)[1], proto.INTERNAL, 0, proto.I_DISCOVER, "")))
            or (not proto.v2(self.protocol_version) and result is None)
        ),
        # nothing is ever handed to the transport by an inbound line except the presentation request for an
        # unknown node/child (>= 2.0) and the wake-up burst
        "jobs": lambda old, self, data, result: (
            accepted(self.protocol_version, data)
            and proto.is_wakeup(self.protocol_version, F(data)[2], F(data)[4])
            and F(data)[0] in old.self.sensors
        )
        or (
            accepted(self.protocol_version, data)
            and proto.v2(self.protocol_version)
            and proto.unknown_target(old.self, self.protocol_version, F(data)[0], F(data)[1], F(data)[2], F(data)[4])
            and (
                (
                    not proto.sleeping(old.self, F(data)[0])
                    and old.G_now.sent == old.G.sent + [wire.canon(F(data)[0], 255, proto.INTERNAL, 0, proto.I_PRESENTATION, "")]
                )
                or (
                    proto.sleeping(old.self, F(data)[0])
                    and old.G_now.sent == old.G.sent
                    and self.sensors[F(data)[0]].queue
                    == old.self.sensors[F(data)[0]].queue + [wire.canon(F(data)[0], 255, proto.INTERNAL, 0, proto.I_PRESENTATION, "")]
                )
            )
            and result is None
        )
        or old.G_now.sent == old.G.sent,
        # everything else is answered with silence
        "silence": lambda old, self, data, result: not accepted(self.protocol_version, data)
        or F(data)[2] == proto.REQ
        or F(data)[2] == proto.STREAM
        or (F(data)[2] == proto.SET and F(data)[0] in old.self.sensors and old.self.sensors[F(data)[0]].reboot)
        or (
            F(data)[2] == proto.INTERNAL
            and (
                F(data)[4] == proto.I_CONFIG
                or F(data)[4] == proto.I_TIME
                or F(data)[4] == proto.I_ID_REQUEST
                or F(data)[4] == proto.I_GATEWAY_READY
            )
        )
        or result is None,
        # whatever is returned for sending is one canonical line that decodes to a message valid for the
        # configured version, addressed to the node concerned or broadcast
        "well-formed": lambda old, self, data, result: result is None
        or (
            wire.decodable(result)
            and api.valid(
                self.protocol_version,
                wire.fields(result)[0],
                wire.fields(result)[1],
                wire.fields(result)[2],
                wire.fields(result)[3],
                wire.fields(result)[4],
                wire.fields(result)[5],
            )
            and (wire.fields(result)[0] == F(data)[0] or wire.fields(result)[0] == 255)
            and result
            == wire.canon(
                wire.fields(result)[0],
                wire.fields(result)[1],
                wire.fields(result)[2],
                wire.fields(result)[3],
                wire.fields(result)[4],
                wire.fields(result)[5],
            )
        ),
    }
