"""C02 - the wire codec is a faithful, canonical round trip (Message.encode / decode / copy / modify)."""
import itertools

from mysensors.message import Message
from pyvc.contract import contract
from pyvc.values import Obj
from spec import wire
from spec.prims import int_of, int_ok

FIELDS = ("node_id", "child_id", "type", "ack", "sub_type")


def _msg(h, kind="int", payload_kind="str"):
    from mysensors.message import Message

    m = Obj(Message, name="msg")
    for f in FIELDS:
        m.fields[f] = h.sym("int" if kind == "int" else "str", f)
    m.fields["payload"] = h.sym(payload_kind, "payload")
    m.fields["gateway"] = None
    return m


@contract("mysensors.message:Message.encode", props=["C02"])
class Encode:
    configs = [{"kind": "int"}, {"kind": "str"}, {"kind": "int", "payload": "int"}]

    def setup(h):
        return [_msg(h, h.config["kind"], h.config.get("payload", "str"))], {}

    raises = {}

    ensures = {
        # five integer fields, the payload, exactly one trailing newline; None iff a header field is not an integer
        "canon": lambda old, self, result, delimiter=";": (
            all_int(self)
            and result
            == wire.canon(hdr(self.node_id), hdr(self.child_id), hdr(self.type), hdr(self.ack), hdr(self.sub_type), str(self.payload))
        )
        or (not all_int(self) and result is None),
        "pure": lambda old, self, result, delimiter=";": same_fields(self, old.self),
    }


def all_int(m):
    return int_ok(m.node_id) and int_ok(m.child_id) and int_ok(m.type) and int_ok(m.ack) and int_ok(m.sub_type)


def hdr(x):
    return int_of(x)


def same_fields(a, b):
    return (
        a.node_id == b.node_id
        and a.child_id == b.child_id
        and a.type == b.type
        and a.ack == b.ack
        and a.sub_type == b.sub_type
        and a.payload == b.payload
    )


@contract("mysensors.message:Message.decode", props=["C02"])
class Decode:
    def setup(h):
        return [_msg(h), h.sym("str", "data")], {}

    # every malformed frame is a ValueError, nothing else; and only malformed frames are
    raises = {ValueError: lambda old, self, data, delimiter=";": not wire.decodable(data)}

    ensures = {
        "fields": lambda old, self, data, result, delimiter=";": wire.decodable(data)
        and self.node_id == wire.fields(data)[0]
        and self.child_id == wire.fields(data)[1]
        and self.type == wire.fields(data)[2]
        and self.ack == wire.fields(data)[3]
        and self.sub_type == wire.fields(data)[4]
        and self.payload == wire.fields(data)[5],
    }


def _roundtrip_body(m):
    """decode(encode(m)) - executed on the real Message class"""
    return Message(m.encode())


@contract("mysensors.message:Message.encode", props=["C02"], name="L1.decode-after-encode")
class LemmaEncodeDecode:
    lemma = True
    params = ["m"]
    body = _roundtrip_body

    def setup(h):
        return [_msg(h)], {}

    def requires(m):
        return wire.carriable(m.payload)

    raises = {}

    ensures = {
        # encoding a carriable message and decoding the result yields the same six fields
        "same-fields": lambda old, m, result: same_fields(result, m) and same_fields(m, old.m),
    }


def _reencode_body(line):
    first = Message(line)
    canon = first.encode()
    second = Message(canon)
    return (first, canon, second, second.encode())


@contract("mysensors.message:Message.decode", props=["C02"], name="L2.encode-after-decode")
class LemmaDecodeEncode:
    lemma = True
    params = ["line"]
    body = _reencode_body

    def setup(h):
        return [h.sym("str", "line")], {}

    raises = {ValueError: lambda old, line: not wire.decodable(line)}

    ensures = {
        # re-encoding an accepted line gives one canonical line that decodes to the same message again
        "canonical": lambda old, line, result: result[1]
        == wire.canon(
            wire.fields(line)[0], wire.fields(line)[1], wire.fields(line)[2], wire.fields(line)[3], wire.fields(line)[4], wire.fields(line)[5]
        ),
        "same-message": lambda old, line, result: same_fields(result[2], result[0]),
        "idempotent": lambda old, line, result: result[3] == result[1],
    }


def _subsets():
    names = FIELDS + ("payload",)
    out = []
    for r in range(len(names) + 1):
        for comb in itertools.combinations(names, r):
            out.append({"replace": list(comb)})
    return out


@contract("mysensors.message:Message.copy", props=["C02"])
class Copy:
    configs = _subsets()
    params = ["self"]

    def setup(h):
        m = _msg(h)
        m.fields["gateway"] = Obj(object, name="some-gateway")
        kw = {}
        for f in h.config["replace"]:
            kw[f] = h.sym("str" if f == "payload" else "int", "new_" + f)
        h.it.env["kw"] = kw
        return [m], kw

    def requires(self, **kw):
        return wire.carriable(self.payload)

    raises = {}

    ensures = {
        # a copy equals its original except for the fields explicitly replaced
        "fields": lambda old, self, result, **kw: forall_fields(old, self, result, kw),
        "fresh": lambda old, self, result, **kw: result is not self and result.gateway is self.gateway and same_fields(self, old.self),
    }


def forall_fields(old, m, r, kw):
    return (
        r.node_id == (kw["node_id"] if "node_id" in kw else m.node_id)
        and r.child_id == (kw["child_id"] if "child_id" in kw else m.child_id)
        and r.type == (kw["type"] if "type" in kw else m.type)
        and r.ack == (kw["ack"] if "ack" in kw else m.ack)
        and r.sub_type == (kw["sub_type"] if "sub_type" in kw else m.sub_type)
        and r.payload == (kw["payload"] if "payload" in kw else m.payload)
    )


@contract("mysensors.message:Message.modify", props=["C02"])
class Modify:
    configs = [{"replace": ["node_id", "payload"]}, {"replace": []}, {"replace": list(FIELDS) + ["payload"]}]
    params = ["self"]

    def setup(h):
        m = _msg(h)
        kw = {}
        for f in h.config["replace"]:
            kw[f] = h.sym("str" if f == "payload" else "int", "new_" + f)
        return [m], kw

    raises = {}
    ensures = {"in-place": lambda old, self, result, **kw: result is self and forall_fields(old, old.self, self, kw)}
