"""C03, finite side conditions: decided by exhaustive evaluation of the *live* tables of the
repository (not SMT); reported separately from solver-discharged obligations."""
from spec import api


def _const(v):
    from mysensors.const import get_const

    return get_const(v)


def subtypes_grow():
    out = []
    prev = None
    for v in api.VERSIONS:
        c = _const(v)
        cur = {int(t): {int(m) for m in ms} for t, ms in c.VALID_MESSAGE_TYPES.items()}
        if prev is not None:
            for t, ms in prev[1].items():
                missing = sorted(ms - cur.get(t, set()))
                out.append((f"subtypes-grow[{prev[0]}->{v},cmd={t}]", not missing, f"dropped sub-types {missing}"))
        prev = (v, cur)
    return out


def defined_matches_spec():
    out = []
    for v in api.VERSIONS:
        c = _const(v)
        for cmd in range(0, 5):
            live = sorted(int(m) for m in c.VALID_MESSAGE_TYPES.get(cmd, []))
            want = list(range(0, api.MAX_SUB[v][cmd] + 1))
            out.append((f"defined[{v},cmd={cmd}]", live == want, f"live {live[:3]}..{live[-3:]} vs spec 0..{api.MAX_SUB[v][cmd]}"))
    return out


def every_subtype_has_rule():
    out = []
    for v in api.VERSIONS:
        c = _const(v)
        for t, ms in c.VALID_MESSAGE_TYPES.items():
            table = c.VALID_PAYLOADS.get(t, {})
            missing = [int(m) for m in ms if m not in table]
            out.append((f"payload-rule[{v},cmd={int(t)}]", not missing, f"sub-types without rule: {missing}"))
    return out


def child_schemas_total():
    """Every presentation type has a child-value schema that builds and validates without
    internal error (only vol.Invalid may come out)."""
    import voluptuous as vol
    from mysensors.sensor import ChildSensor

    out = []
    for v in api.VERSIONS:
        c = _const(v)
        for pres in c.Presentation:
            name = f"child-schema[{v},type={int(pres)}]"
            try:
                ch = ChildSensor(0, int(pres), "")
                sch = ch.get_schema(v)
                ch.validate(v, {})
                for vt in list(c.VALID_TYPES.get(pres, [])) + [max(c.SetReq) + 1]:
                    for val in ("", "1", "x"):
                        try:
                            ch.validate(v, {int(vt): val})
                        except vol.Invalid:
                            pass
                ok, why = True, ""
            except Exception as e:  # pylint: disable=broad-except
                ok, why = False, f"{type(e).__name__}: {e}"
            out.append((name, ok, why))
    return out


FINITE = {"C03": [subtypes_grow, defined_matches_spec, every_subtype_has_rule, child_schemas_total]}
