"""C12 / C13 / C14 (stop) / C15 - persistence: atomic save, damaged files, clean stop, self-healing schedule."""
import pickle

import z3

from mysensors import persistence as P
from mysensors import task as T
from pyvc.contract import contract, env
from pyvc.core import INT, BOOL, ExcVal, PyRaise
from pyvc.values import ModelFn, Modelled, Obj, Opaque

from . import fs_model as FSM
from .fs_model import ABSENT_VIEW, FS, good, view

MAIN = {"json": "/vfs/mysensors.json", "pickle": "/vfs/mysensors.pickle"}
TMP = {"json": "/vfs/mysensors.tmp.json", "pickle": "/vfs/mysensors.tmp.pickle"}
PRIORS = ("none", "main", "main+bak", "main+tmp", "main+bak+tmp")
N_OPS = 10  # open, 2 writes, flush, fsync, close, rename, rename, remove (+1 spare)

# exception classes the decoders are assumed to raise on damaged input (T-json / T-pickle; audited natively)
JSON_ERRORS = [ValueError]  # json.JSONDecodeError and UnicodeDecodeError are ValueErrors
PICKLE_ERRORS = [pickle.UnpicklingError, EOFError, AttributeError, ImportError, IndexError, ValueError]


def _persistence(h, fmt, need_save=True):
    it, ctx = h.it, h.ctx
    main = MAIN[fmt]
    p = Obj(P.Persistence, name="persistence")
    p.fields.update(
        _sensors=Opaque("sensors"),
        need_save=need_save,
        persistence_file=main,
        persistence_bak=main + ".bak",
        schedule_save_sensors=None,
    )
    fs = FS(it, main, main + ".bak", TMP[fmt])
    FSM.install(it, fs)
    it.env["json_errors"] = JSON_ERRORS
    it.env["pickle_errors"] = PICKLE_ERRORS
    return p, fs


def _prior(h, fs, prior):
    ctx = h.ctx
    facts = {}
    v_old = ABSENT_VIEW
    if "main" in prior:
        c = ctx.fresh_term(INT, "old_content")
        ctx.add_fact(good(c))
        ctx.add_fact(view(c) != ABSENT_VIEW)
        fs.add_file("main", c, "old")
        v_old = view(c)
    if "bak" in prior:
        c = ctx.fresh_term(INT, "stale_bak")
        ctx.add_fact(good(c))
        fs.add_file("bak", c, "stale-bak")
    if "tmp" in prior:
        fs.add_file("tmp", ctx.fresh_term(INT, "stale_tmp"), "stale-tmp")
    return v_old


def _new_content(h):
    c = h.ctx.fresh_term(INT, "new_content")
    h.ctx.add_fact(good(c))
    h.ctx.add_fact(view(c) != ABSENT_VIEW)
    h.it.env["new_content"] = c
    return c


def _crash_hook(h, v_old, v_new, tag="save_sensors"):
    def hook(fs, idx, name, path):
        emit_crash_obligations(h.ctx, fs, v_old, v_new, f"{tag}.crash@{idx}:{name}")

    return hook


def emit_crash_obligations(ctx, fs, v_old, v_new, label):
    for lose in (True, False):
        for k, st in enumerate(fs.crash_states(lose_unsynced=lose)):
            r = fs.recover_term(st)
            mode = "unsynced-data-lost" if lose else "no-data-loss"
            ctx.oblige(f"{label}[{mode}#{k}]", z3.Or(r == v_old, r == v_new), kind="crash")


@contract("mysensors.persistence:Persistence.save_sensors", props=["C06", "C12", "C14", "C15"])
class SaveSensors:
    """Crash Hoare logic on the real save: at every file operation boundary, every state a crash can
    leave recovers to the complete old or the complete new state; same after a failing operation."""

    # a fault is an I/O error of one file operation - or the serialiser failing because the network changed under it
    # ("dictionary changed size during iteration": a RuntimeError out of the first or the second half of the dump)
    configs = [{"fmt": f, "prior": p, "fault": k} for f in ("json", "pickle") for p in PRIORS for k in [None] + list(range(N_OPS))] + [
        {"fmt": f, "prior": p, "fault": k, "serialiser_fails": True} for f in ("json", "pickle") for p in ("none", "main", "main+bak") for k in (1, 2)
    ]

    def setup(h):
        c = h.config
        p, fs = _persistence(h, c["fmt"])
        v_old = _prior(h, fs, c["prior"])
        new = _new_content(h)
        fs.fault_at = c["fault"]
        if c.get("serialiser_fails"):
            h.it.env["dump_fault"] = RuntimeError
        tag = f"save_sensors[{c['fmt']},{c['prior']},fault={c['fault']}{',serialiser' if c.get('serialiser_fails') else ''}]"
        fs.obligation_hook = _crash_hook(h, v_old, view(new), tag)
        h.it.env.update(v_old=v_old, v_new=view(new), crash_tag=tag)
        return [p], {}

    # an I/O error may only come out of a save in which an operation actually failed
    raises = {OSError: lambda old, self: fault_happened(), RuntimeError: lambda old, self: fault_happened()}

    exc_ensures = {
        # a failed save keeps the state marked unsaved ...
        "still-dirty": lambda old, self, exc: self.need_save,
        # ... and leaves a loadable old or new state behind (with and without loss of unsynced data)
        "recoverable": lambda old, self, exc: at_exit_recoverable(),
    }

    ensures = {
        "saved": lambda old, self, result: not self.need_save and at_exit_recoverable() and now_recovers_new(),
    }


def fault_happened():
    return True


def at_exit_recoverable():
    """vocabulary (engine side): emit the crash obligations for the state at function exit"""
    return True


def now_recovers_new():
    return True


def _install_vocab(it):
    def m_exit(it2, a, k):
        fs = it2.env["fs"]
        emit_crash_obligations(it2.ctx, fs, it2.env["v_old"], it2.env["v_new"], it2.env.get("crash_tag", "save_sensors") + ".crash@exit")
        return True

    def m_new(it2, a, k):
        fs = it2.env["fs"]
        st = fs.crash_states(lose_unsynced=False)[0]
        from pyvc import ops

        return ops.mk("bool", fs.recover_term(st) == it2.env["v_new"])

    def m_fault(it2, a, k):
        fs = it2.env["fs"]
        return fs.fault_at is not None and fs.fault_at < len(fs.ops)

    it.models[id(fault_happened)] = ModelFn("fault_happened", m_fault)
    it.models[id(at_exit_recoverable)] = ModelFn("at_exit_recoverable", m_exit)
    it.models[id(now_recovers_new)] = ModelFn("now_recovers_new", m_new)


_orig_setup = SaveSensors.__dict__["setup"]


def _setup_with_vocab(h):
    _install_vocab(h.it)
    return _orig_setup(h)


SaveSensors.setup = _setup_with_vocab


def saved_state_is_current():
    """vocabulary (engine side): what a start-up would load from the files as they are now is the state the gateway
    holds now (no loss of unsynced data assumed: this clause is about the flag, not about the disk)"""
    return True


@contract("mysensors.persistence:Persistence.save_sensors", props=["C14", "C15"], name="save_sensors.concurrent-report")
class SaveSensorsConcurrent:
    """The save runs in the timer thread (threaded gateway) or in an executor thread (asyncio gateway) while the pump
    goes on handling lines.  Rely: between any two file operations of the save the other thread may handle one report
    that changes the persisted view - the in-memory state becomes a different one and `alert()` sets `need_save`.
    Guarantee: the flag may be clear at the end only if the file holds the state the gateway holds then; otherwise
    the change would be marked saved, every later tick and the final save of stop() would return early, and a clean
    stop would lose it (C14), the schedule would not heal (C15).  The serialiser writes the state it finds when it
    runs: a change before the dump is in the file, one after it is not."""

    configs = [{"fmt": f, "prior": p, "report_before_op": k} for f in ("json", "pickle") for p in ("none", "main") for k in range(N_OPS)]

    def setup(h):
        _install_vocab(h.it)
        c = h.config
        p, fs = _persistence(h, c["fmt"])
        v_old = _prior(h, fs, c["prior"])
        new = _new_content(h)
        env_ = h.it.env
        env_.update(v_old=v_old, v_new=view(new), v_current=view(new), reported=False)

        def hook(fs_, idx, name, path):
            if idx != c["report_before_op"]:
                return
            # the pump thread handles one state-changing report now
            changed = h.ctx.fresh_term(INT, "content_after_report")
            h.ctx.add_fact(good(changed))
            h.ctx.add_fact(view(changed) != ABSENT_VIEW)
            h.ctx.add_fact(view(changed) != env_["v_current"])
            env_["v_current"] = view(changed)
            env_["new_content"] = changed  # what a dump that has not started yet would write
            env_["reported"] = True
            p.fields["need_save"] = True  # Gateway.alert

        fs.obligation_hook = hook

        def m_current(it2, a, k):
            from pyvc import ops

            st = fs.crash_states(lose_unsynced=False)[0]
            return ops.mk("bool", fs.recover_term(st) == it2.env["v_current"])

        h.it.models[id(saved_state_is_current)] = ModelFn("saved_state_is_current", m_current)
        return [p], {}

    raises = {}
    ensures = {"flag-clear-only-if-file-current": lambda old, self, result: self.need_save or saved_state_is_current()}


@contract("mysensors.persistence:Persistence.save_sensors", props=["C12", "C14"], name="save_sensors.clean")
class SaveNotNeeded:
    """need_save False: nothing is touched."""

    configs = [{"fmt": f} for f in ("json", "pickle")]

    def setup(h):
        p, fs = _persistence(h, h.config["fmt"], need_save=False)
        _prior(h, fs, "main")
        _new_content(h)
        return [p], {}

    raises = {}
    ensures = {"no-io": lambda old, self, result: no_file_ops() and not self.need_save}


_snn_setup = SaveNotNeeded.__dict__["setup"]


def _snn(h):
    r = _snn_setup(h)
    h.it.models[id(no_file_ops)] = ModelFn("no_file_ops", lambda it2, a, k: len(it2.env["fs"].ops) == 0)
    return r


SaveNotNeeded.setup = _snn


def no_file_ops():
    return True


def _save_twice(p):
    """a save that fails somewhere, then the next (fault-free) save"""
    try:
        p.save_sensors()
    except OSError:
        pass
    next_save_begins()
    p.save_sensors()
    return p


def next_save_begins():
    return None


@contract("mysensors.persistence:Persistence.save_sensors", props=["C12", "C15"], name="L.next-save-succeeds")
class LemmaNextSave:
    lemma = True
    params = ["p"]
    body = _save_twice
    configs = [{"fmt": f, "prior": p, "fault": k} for f in ("json", "pickle") for p in PRIORS for k in range(N_OPS)]

    def setup(h):
        c = h.config
        p, fs = _persistence(h, c["fmt"])
        v_old = _prior(h, fs, c["prior"])
        new = _new_content(h)
        fs.fault_at = c["fault"]
        h.it.env.update(v_old=v_old, v_new=view(new))

        def m_next(it2, a, k):
            fs.fault_at = None
            new2 = _new_content(h)
            it2.env["v_new2"] = view(new2)
            # the failed attempt may or may not have cleared the flag; the state changed since, so:
            p.fields["need_save"] = True
            return None

        def m_recovers_new2(it2, a, k):
            from pyvc import ops

            ok = []
            for lose in (True, False):
                # after a *completed* save even a crash right now yields old-or-new of the second save;
                # without data loss it is the new state
                pass
            st = fs.crash_states(lose_unsynced=False)[0]
            return ops.mk("bool", fs.recover_term(st) == it2.env["v_new2"])

        h.it.models[id(next_save_begins)] = ModelFn("next_save_begins", m_next)
        h.it.models[id(second_save_persisted)] = ModelFn("second_save_persisted", m_recovers_new2)
        return [p], {}

    raises = {}  # the second save must not fail
    ensures = {"second-save-persists": lambda old, p, result: second_save_persisted() and not p.need_save}


def second_save_persisted():
    return True


# ------------------------------------------------------------------------------------------- C13
STATES = ("absent", "good", "damaged")


@contract("mysensors.persistence:Persistence.safe_load_sensors", props=["C13"])
class SafeLoad:
    configs = [{"fmt": f, "main": m, "bak": b} for f in ("json", "pickle") for m in STATES for b in STATES]

    def setup(h):
        c = h.config
        p, fs = _persistence(h, c["fmt"])
        ctx = h.ctx
        from pyvc.heap import MapRef, ObjDict
        from .state import new_world, sensors_ref

        w = new_world(h)
        p.fields["_sensors"] = sensors_ref(w)
        for key in ("main", "bak"):
            st = c[key]
            if st == "absent":
                continue
            cont = ctx.fresh_term(INT, key + "_content")
            ctx.add_fact(good(cont) if st == "good" else z3.Not(good(cont)))
            fs.add_file(key, cont, st)
            h.it.env[key + "_view"] = view(cont)
        ctx.ghost["merged"] = []
        return [p], {}

    raises = {}  # loading never raises because of file content

    ensures = {
        # one complete saved state or nothing, never a partial merge
        "one-state-or-nothing": lambda old, self, result: loaded_exactly(expected_views()),
    }


def expected_views():
    return None


def loaded_exactly(x):
    return True


def _setup_safeload_vocab(h):
    args = _sl_setup(h)
    c = h.config

    def m_expected(it2, a, k):
        if c["main"] == "good":
            return [it2.env["main_view"]]
        if c["bak"] == "good":
            return [it2.env["bak_view"]]
        return []

    def m_loaded(it2, a, k):
        want = a[0]
        got = [m.view for m in it2.ctx.ghost.get("merged", []) if hasattr(m, "view")]
        if len(got) != len(it2.ctx.ghost.get("merged", [])) or len(got) != len(want):
            return False
        from pyvc import ops

        return ops.mk("bool", z3.And([g == w for g, w in zip(got, want)])) if got else True

    h.it.models[id(expected_views)] = ModelFn("expected_views", m_expected)
    h.it.models[id(loaded_exactly)] = ModelFn("loaded_exactly", m_loaded)
    return args


_sl_setup = SafeLoad.__dict__["setup"]
SafeLoad.setup = _setup_safeload_vocab
