"""Call-site summaries: contracts of callees used modularly at call sites.

Each summary states the contract it stands for and which check proves it against the body."""
import voluptuous as vol
import z3

from pyvc import ops
from pyvc.core import SV, ExcVal, PyRaise, Unsupported, lift
from pyvc.values import BoundMethod, Obj, Opaque, SeqVal
from spec import api

NO_SUMMARY = object()
LABELS = ("1.4", "1.5", "2.0", "2.1", "2.2")
from pyvc.core import STR

ver_floor = z3.Function("ver_floor", STR, z3.IntSort())


def version_label(it, pv):
    """Which version's tables get_const(pv) selects (C18 proves get_const against ver.floor)."""
    from mysensors.const import get_const

    pv = ops.force(pv)
    if isinstance(pv, str):
        name = get_const(pv).__name__
        return name[-2] + "." + name[-1]
    kind, t = lift(pv)
    idx = ver_floor(t)
    k = it.ctx.choose([idx == i for i in range(5)] + [z3.Or(idx < 0, idx > 4)], labels=list(LABELS) + ["<bad>"], site="get_const")
    if k == 5:
        from pyvc.core import PathDead

        raise PathDead()
    return LABELS[k]


def sum_get_const(it, func, args, kwargs):
    from mysensors.const import get_const

    pv = ops.force(args[0])
    if isinstance(pv, str):
        return NO_SUMMARY
    return get_const(version_label(it, pv))


def _is_int(v):
    import enum

    return isinstance(v, (int, enum.IntEnum)) and not isinstance(v, bool) or (isinstance(v, SV) and v.kind == "int")


def sum_validate(it, func, args, kwargs):
    """Message.validate(version): returns iff api.valid, raises only vol.Invalid (proved by C03
    for integer header fields, string payload, gateway None)."""
    msg, pv = args[0], args[1]
    f = msg.fields
    if f.get("gateway") is not None:
        return NO_SUMMARY
    payload = ops.force(f["payload"])
    if not all(_is_int(f[k]) for k in ("node_id", "child_id", "type", "ack", "sub_type")):
        return NO_SUMMARY
    if not (isinstance(payload, str) or (isinstance(payload, SV) and payload.kind == "str")):
        return NO_SUMMARY
    label = version_label(it, pv)
    env = getattr(it, "env", {})
    if "inbound" not in env:
        env["inbound"] = msg
        env["inbound_label"] = label
    it.env = env
    prev, prevf = it.ctx.mode, it.formula_mode
    it.ctx.mode = "exec"
    it.formula_mode = True  # one formula, no forks
    try:
        v = it.call(api.valid, [label, f["node_id"], f["child_id"], f["type"], f["ack"], f["sub_type"], payload], {})
    finally:
        it.ctx.mode = prev
        it.formula_mode = prevf
    want = env.get("cfg_cmd")
    first = env.get("inbound") is msg
    if it.truth(v):
        if first and want is not None:
            from pyvc.core import PathDead

            if want == -1:
                raise PathDead()
            if not it.truth(ops.compare(it, "Eq", f["type"], want)):
                raise PathDead()
            bucket = env.get("cfg_subs")
            if bucket is not None:
                # split the internal command by sub-type groups (pure work partitioning: the groups
                # of one command cover all sub-types)
                kind, st = lift(f["sub_type"])
                inb = z3.Or([st == b for b in bucket["members"]])
                cond = inb if bucket["in"] else z3.Not(inb)
                it.ctx.add_fact(cond)
        return Opaque("validated-message")
    if first and want is not None and want != -1:
        from pyvc.core import PathDead

        raise PathDead()
    raise PyRaise(ExcVal(vol.MultipleInvalid, ("invalid message",), site="Message.validate"))


def sum_copy(it, func, args, kwargs):
    """Message.copy(**kw): for a message whose header fields are integers and whose payload the
    wire can carry, a fresh message with the same (normalised) fields, then the replaced ones.
    Proved against the body (decode(encode(self)) + setattr) by C02; the carriable precondition
    is an obligation at every call site."""
    from mysensors.message import Message

    self_ = args[0]
    f = self_.fields
    if not all(_is_int(f[k]) for k in ("node_id", "child_id", "type", "ack", "sub_type")):
        return NO_SUMMARY
    payload = ops.to_str(it, ops.force(f["payload"]))
    kind, t = lift(payload)
    from pyvc.laws import lawbook

    lb = lawbook(it.ctx)
    cond = z3.And(z3.Not(lb.contains(t, lift(";")[1])), lb.rstrip(t) == t)
    fr = it.stack[-1].name if it.stack else "?"
    it.ctx.oblige(f"{fr}.call:Message.copy.carriable", cond, kind="pre@call", site=fr)
    it.ctx.add_fact(cond)
    m = Obj(Message, name="msg-copy")
    for k in ("node_id", "child_id", "type", "ack", "sub_type"):
        v = f[k]
        m.fields[k] = int(v) if not isinstance(v, SV) else v
    m.fields["payload"] = payload
    m.fields["gateway"] = f.get("gateway")
    for k, v in kwargs.items():
        it.setattr(m, k, v)
    return m


def sum_add_job(it, func, args, kwargs):
    """Tasks.add_job(func, *args): the job's reply is handed to the transport exactly once.
    Ghost `sent`: replies in emission order.  (The sync pump's own order is C19's obligation.)"""
    self_, fn, rest = args[0], args[1], list(args[2:])
    g = it.ctx.ghost
    is_set = False
    dest = None
    is_stream = False
    if isinstance(fn, BoundMethod) and isinstance(fn.self_val, Obj):
        m = fn.self_val
        dest = m.fields.get("node_id")
        g.setdefault("jobs", []).append({"kind": "msg", "msg": m, "fields": dict(m.fields)})
    else:
        g.setdefault("jobs", []).append({"kind": "raw", "func": fn, "args": rest})
    if isinstance(fn, BoundMethod) and isinstance(fn.self_val, Obj) and "setcount" in g:
        m = fn.self_val
        ty = m.fields.get("type")
        if not isinstance(ty, SV) and ty is not None and int(ty) == 1:
            from pyvc.loops import GhostArr

            c = lift(m.fields["child_id"])[1]
            vt = lift(m.fields["sub_type"])[1]
            cnt, pay = g["setcount"], g["setpay"]
            new_cnt = z3.Store(cnt.term, c, z3.Store(z3.Select(cnt.term, c), vt, z3.Select(z3.Select(cnt.term, c), vt) + 1))
            new_pay = z3.Store(pay.term, c, z3.Store(z3.Select(pay.term, c), vt, lift(ops.to_str(it, m.fields["payload"]))[1]))
            g["setcount"] = GhostArr(new_cnt, cnt.roles, cnt.kind)
            g["setpay"] = GhostArr(new_pay, pay.roles, pay.kind)
            is_set = True
    if "rawjobs" in g:
        key = "setjobs" if is_set else "rawjobs"
        cur = g[key]
        g[key] = ops.mk("int", lift(cur)[1] + 1)
    hook = getattr(it, "on_add_job", None)
    if hook is not None:
        hook(it, fn, rest)
    r = it.call(fn, rest, {})
    append_sent(it, r)
    sender = g.get("sender")
    if sender is not None and ops.specialize(it, r) is not None:
        from spec import wire

        prev = it.formula_mode
        it.formula_mode = True
        try:
            ok = ops.truth(it, it.call(wire.addressed, [r, sender], {}))
        finally:
            it.formula_mode = prev
        cur = ops.truth(it, g.get("jobs_ok", True))
        both = z3.And(z3.BoolVal(cur) if isinstance(cur, bool) else cur, z3.BoolVal(ok) if isinstance(ok, bool) else ok)
        g["jobs_ok"] = ops.simplify_bool(both) if hasattr(ops, "simplify_bool") else ops.mk("bool", z3.simplify(both))
    return None


def append_sent(it, r):
    g = it.ctx.ghost
    sent = g["sent"]
    r = ops.specialize(it, r)
    if r is None:
        return
    kind, t = lift(r)
    if kind != "str":
        raise Unsupported("job reply that is not a string")
    # every reply handed to transport.send is logged (send itself drops empty ones)
    g["sent"] = SeqVal("str", z3.Concat(sent.term, z3.Unit(t)), "list")


crc16_modbus = z3.Function("crc16_modbus", z3.SeqSort(z3.BitVecSort(8)), z3.IntSort())


def sum_compute_crc(it, func, args, kwargs):
    """compute_crc(data): crcmod's 'modbus' CRC of the bytes, a 16-bit number (T-crc: equals the bitwise
    CRC-16/MODBUS spec function; audited natively)."""
    t = ops._seq_term(args[0])
    r = crc16_modbus(t)
    it.ctx.add_fact(z3.And(r >= 0, r <= 65535))
    return ops.mk("int", r)


def install(it, names=("validate", "add_job", "get_const", "copy", "compute_crc")):
    import mysensors.const
    import mysensors.message
    import mysensors.task

    table = {
        "copy": (("mysensors.message", "Message.copy"), sum_copy),
        "compute_crc": (("mysensors.ota", "compute_crc"), sum_compute_crc),
        "validate": (("mysensors.message", "Message.validate"), sum_validate),
        "get_const": (("mysensors.const", "get_const"), sum_get_const),
    }
    for n in names:
        if n == "add_job":
            for cls in ("Tasks", "SyncTasks", "AsyncTasks"):
                it.summaries[("mysensors.task", f"{cls}.add_job")] = sum_add_job
        else:
            key, fn = table[n]
            it.summaries[key] = fn
