"""Entry contracts on Gateway.logic for C06 (id hand-out), C07, C08, C10, C14."""
from pyvc.contract import as_str, contract, forall, implies, is_none, is_prefix, is_str, same_dict, same_item
from spec import api, proto, wire
from spec.prims import hex_of, hex_word, hex_words_ok, le16hex

from .c04_state import node_view_same
from .gw_logic import _configs, _setup, accepted, ota_unchanged
from .inv import inv
from .loops_sleep import due
from .state import VERSIONS

F = wire.fields


def _cfg(cmds, versions=VERSIONS, **extra):
    from .gw_logic import split_internal

    return lambda tier=None: split_internal([dict({"version": v, "cmd": c}, **extra) for v in versions for c in cmds])


# ------------------------------------------------------------------------------------------- C06
@contract("mysensors:Gateway.logic", props=["C06"])
class LogicC06:
    configs = _cfg((3,), persistence=True)
    setup = _setup

    def requires(self, data):
        return inv(self)

    raises = {}

    ensures = {
        # every id carried by an id response lies in 1..254, was unknown, and is reserved at once
        "id-response-fresh": lambda old, self, data, result: not (
            accepted(self.protocol_version, data) and F(data)[2] == proto.INTERNAL and F(data)[4] == proto.I_ID_REQUEST
        )
        or (
            (
                old.G_now.new_id is None
                and result is None
                and old.G_now.sent == old.G.sent
                and forall(self.sensors, lambda m: m in old.self.sensors)
            )
            or (
                old.G_now.new_id is not None
                and 1 <= old.G_now.new_id
                and old.G_now.new_id <= 254
                and old.G_now.new_id not in old.self.sensors
                and old.G_now.new_id in self.sensors
                and (
                    result is None
                    or (wire.decodable(result) and wire.fields(result)[5] == str(old.G_now.new_id) and wire.fields(result)[4] == proto.I_ID_RESPONSE)
                )
            )
        ),
        # ... and nothing but an id request ever emits an id response
        "only-id-requests-answer-with-ids": lambda old, self, data, result: result is None
        or not wire.decodable(result)
        or not (wire.fields(result)[2] == proto.INTERNAL and wire.fields(result)[4] == proto.I_ID_RESPONSE)
        or (accepted(self.protocol_version, data) and F(data)[2] == proto.INTERNAL and F(data)[4] == proto.I_ID_REQUEST),
        # known nodes never disappear (so an id handed out earlier stays taken)
        "ids-stay-taken": lambda old, self, data, result: forall(old.self.sensors, lambda m: m in self.sensors),
        # with persistence enabled the reservation is marked for saving (restart clause)
        "reservation-marked-dirty": lambda old, self, data, result: forall(self.sensors, lambda m: m in old.self.sensors)
        or not old.G_now.persistence_on
        or old.G_now.persistence_obj.need_save,
    }


# ------------------------------------------------------------------------------------------- C07
# withheld means withheld, not lost, and not reordered: a reply for a sleeping node is appended at the END of its
# queue (so that the burst, which is emitted from the front, is oldest first), and queues only shrink (to empty) at
# that node's wake-up announcement
_QUEUES = lambda old, self, data, result: forall(
    old.self.sensors,
    lambda m: m in self.sensors
    and (
        self.sensors[m].queue == old.self.sensors[m].queue
        or (
            wire.decodable(data)
            and (
                # (the addressee of a reply is the sender, or node 255 for the discover broadcast that
                # answers "gateway ready"; either way only a sleeping node's queue grows, at its end)
                (
                    proto.sleeping(old.self, m)
                    and not (m == F(data)[0] and proto.is_wakeup(self.protocol_version, F(data)[2], F(data)[4]))
                    and is_prefix(old.self.sensors[m].queue, self.sensors[m].queue)
                )
                or (m == F(data)[0] and proto.is_wakeup(self.protocol_version, F(data)[2], F(data)[4]) and not self.sensors[m].queue)
            )
        )
    ),
)


@contract("mysensors:Gateway.logic", props=["C07"])
class LogicC07:
    configs = _cfg((0, 1, 2, 3, 4), ("2.0", "2.1", "2.2"))
    setup = _setup

    def requires(self, data):
        return inv(self)

    raises = {}

    ensures = {
        # what is returned for sending is never addressed to a node that is asleep, stream responses excepted
        "no-reply-to-sleeper": lambda old, self, data, result: result is None
        or not wire.decodable(result)
        or wire.fields(result)[2] == proto.STREAM
        or not proto.sleeping(old.self, wire.fields(result)[0]),
        # jobs are handed to the transport only in the burst of a wake-up announcement, or as the
        # presentation request to a node that is not asleep
        "no-job-to-sleeper": lambda old, self, data, result: old.G_now.sent == old.G.sent
        or (
            accepted(self.protocol_version, data)
            and (
                (proto.is_wakeup(self.protocol_version, F(data)[2], F(data)[4]) and F(data)[0] in old.self.sensors)
                or not proto.sleeping(old.self, F(data)[0])
            )
        ),
        # whatever is handed to the transport while a line is processed (the wake-up burst, a presentation
        # request) is a command for the node that sent the line - nobody else's traffic is released or touched
        "jobs-addressed": lambda old, self, data, result: old.G_now.jobs_ok,
        # withheld means withheld, not lost: a reply for a sleeping node is appended to its queue, and
        # queues only shrink (to empty) at that node's wake-up announcement
        "queues": _QUEUES,
        # traffic for other nodes is never delayed: a node that is not asleep gets nothing queued
        "awake-never-queued": lambda old, self, data, result: forall(
            old.self.sensors,
            lambda m: proto.sleeping(old.self, m)
            or (
                m in self.sensors
                and (
                    self.sensors[m].queue == old.self.sensors[m].queue
                    # (its own first wake-up announcement releases whatever the queue holds: nothing is added)
                    or (
                        wire.decodable(data)
                        and m == F(data)[0]
                        and proto.is_wakeup(self.protocol_version, F(data)[2], F(data)[4])
                        and not self.sensors[m].queue
                    )
                )
            ),
        ),
        # a node falls asleep only by its own wake-up announcement, and never wakes for good
        "sleep-state": lambda old, self, data, result: forall(
            old.self.sensors,
            lambda m: m not in self.sensors
            or proto.sleeping(self, m) == proto.sleeping(old.self, m)
            or (
                accepted(self.protocol_version, data)
                and m == F(data)[0]
                and proto.is_wakeup(self.protocol_version, F(data)[2], F(data)[4])
                and proto.sleeping(self, m)
            ),
        ),
    }


# ------------------------------------------------------------------------------------------- C08
@contract("mysensors:Gateway.logic", props=["C08"])
class LogicC08:
    configs = _cfg((1, 2, 3), ("2.0", "2.1", "2.2"))
    setup = _setup

    def requires(self, data):
        return inv(self)

    raises = {}

    clause_when = {
        "burst-replies": lambda c: c.get("cmd") == 3 and c.get("subs") in (0, None),
        "burst-desired": lambda c: c.get("cmd") == 3 and c.get("subs") in (0, None),
        "wakeup-covers-children": lambda c: c.get("cmd") == 3 and c.get("subs") in (0, None),
        "report-clears-desired": lambda c: c.get("cmd") == 1,
    }

    ensures = {
        # "oldest first" has two halves: the burst is emitted from the front of the queue (burst-replies), and
        # whatever is withheld in between joins the queue at its end, behind everything withheld earlier
        "withheld-joins-at-the-end": _QUEUES,
        # at a wake-up announcement every withheld reply goes out exactly once, oldest first ...
        "burst-replies": lambda old, self, data, result: not (
            accepted(self.protocol_version, data)
            and proto.is_wakeup(self.protocol_version, F(data)[2], F(data)[4])
            and F(data)[0] in old.self.sensors
        )
        or (
            is_prefix(old.G.sent + old.self.sensors[F(data)[0]].queue, old.G_now.sent)
            and old.G_now.rawjobs == old.G.rawjobs + len(old.self.sensors[F(data)[0]].queue)
            and len(old.G_now.sent) == len(old.G.sent) + len(old.self.sensors[F(data)[0]].queue) + (old.G_now.setjobs - old.G.setjobs)
            and not self.sensors[F(data)[0]].queue
        ),
        # ... followed by exactly one set command per value type reported before with a pending desired value
        "burst-desired": lambda old, self, data, result: not (
            accepted(self.protocol_version, data)
            and proto.is_wakeup(self.protocol_version, F(data)[2], F(data)[4])
            and F(data)[0] in old.self.sensors
        )
        or forall(
            ("child", "vt"),
            lambda c, vt: old.G_now.setcount[c][vt] == (1 if due(old.self.sensors[F(data)[0]], c, vt) else 0)
            and (
                not due(old.self.sensors[F(data)[0]], c, vt)
                or old.G_now.setpay[c][vt] == as_str(old.self.sensors[F(data)[0]].new_state[c].values[vt])
            ),
        ),
        # every wake-up makes every child known so far addressable by the controller: it gets a
        # desired-state entry (also a child presented after an earlier wake-up)
        "wakeup-covers-children": lambda old, self, data, result: not (
            accepted(self.protocol_version, data)
            and proto.is_wakeup(self.protocol_version, F(data)[2], F(data)[4])
            and F(data)[0] in old.self.sensors
        )
        or forall(
            old.self.sensors[F(data)[0]].children,
            lambda c: c in self.sensors[F(data)[0]].new_state
            and (c in old.self.sensors[F(data)[0]].new_state or not self.sensors[F(data)[0]].new_state[c].values),
        ),
        # the desired values stay pending (they are re-sent at every wake-up) ...
        "desired-kept": lambda old, self, data, result: not accepted(self.protocol_version, data)
        or F(data)[2] == proto.SET
        or forall(
            old.self.sensors,
            lambda m: m in self.sensors
            and forall(
                old.self.sensors[m].new_state,
                lambda c: c in self.sensors[m].new_state and same_item(self.sensors[m].new_state, old.self.sensors[m].new_state, c),
            ),
        ),
        # ... until the node reports that value type: the report clears exactly that desired entry
        "report-clears-desired": lambda old, self, data, result: not (
            accepted(self.protocol_version, data) and F(data)[2] == proto.SET and F(data)[0] in old.self.sensors
        )
        or forall(
            ("child", "vt"),
            lambda c, vt: c not in old.self.sensors[F(data)[0]].new_state
            or (
                c in self.sensors[F(data)[0]].new_state
                and (
                    (
                        c == F(data)[1]
                        and vt == F(data)[4]
                        and c in old.self.sensors[F(data)[0]].children
                        and vt in self.sensors[F(data)[0]].new_state[c].values
                        and is_none(self.sensors[F(data)[0]].new_state[c].values[vt])
                    )
                    or (
                        not (c == F(data)[1] and vt == F(data)[4] and c in old.self.sensors[F(data)[0]].children)
                        and (vt in self.sensors[F(data)[0]].new_state[c].values) == (vt in old.self.sensors[F(data)[0]].new_state[c].values)
                        and self.sensors[F(data)[0]].new_state[c].values[vt] == old.self.sensors[F(data)[0]].new_state[c].values[vt]
                    )
                )
            ),
        ),
    }


# ------------------------------------------------------------------------------------------- C10
def fw_of(ota, n, first, second):
    """the (type, version) the node is scheduled for in the first store that has it"""
    return first[n] if n in first else second[n]


@contract("mysensors:Gateway.logic", props=["C10"])
class LogicC10:
    configs = _cfg((0, 1, 4))
    setup = _setup

    def requires(self, data):
        return inv(self)

    raises = {}

    clause_when = {
        "malformed-ignored": lambda c: c.get("cmd") == 4,
        "gated": lambda c: c.get("cmd") == 4,
        "config": lambda c: c.get("cmd") == 4,
        "block": lambda c: c.get("cmd") == 4,
        "reboot-on-set": lambda c: c.get("cmd") == 1,
        "presentation-ends-reboot": lambda c: c.get("cmd") == 0,
    }

    ensures = {
        # malformed firmware requests are ignored: no reply and no change to the session
        "malformed-ignored": lambda old, self, data, result: not (accepted(self.protocol_version, data) and F(data)[2] == proto.STREAM)
        or not (
            (F(data)[4] == proto.ST_FIRMWARE_CONFIG_REQUEST and not hex_words_ok(F(data)[5], 5))
            or (F(data)[4] == proto.ST_FIRMWARE_REQUEST and not hex_words_ok(F(data)[5], 3))
        )
        or (result is None and ota_unchanged(self, old.self)),
        # unknown nodes never get firmware; sub-types other than the two requests never touch the session
        "gated": lambda old, self, data, result: not (accepted(self.protocol_version, data) and F(data)[2] == proto.STREAM)
        or (F(data)[0] in old.self.sensors and (F(data)[4] == proto.ST_FIRMWARE_CONFIG_REQUEST or F(data)[4] == proto.ST_FIRMWARE_REQUEST))
        or (result is None and ota_unchanged(self, old.self)),
        # config request: answered while the node is scheduled and has not started fetching; then withheld
        "config": lambda old, self, data, result: not (
            accepted(self.protocol_version, data)
            and F(data)[2] == proto.STREAM
            and F(data)[4] == proto.ST_FIRMWARE_CONFIG_REQUEST
            and F(data)[0] in old.self.sensors
            and hex_words_ok(F(data)[5], 5)
        )
        or (
            same_dict(self.tasks.ota.firmware, old.self.tasks.ota.firmware)
            and same_dict(self.tasks.ota.started, old.self.tasks.ota.started)
            and (
                (
                    # not scheduled (or already fetching): withheld, nothing moves
                    F(data)[0] not in old.self.tasks.ota.requested
                    and F(data)[0] not in old.self.tasks.ota.unstarted
                    and result is None
                    and ota_unchanged(self, old.self)
                )
                or (
                    (F(data)[0] in old.self.tasks.ota.requested or F(data)[0] in old.self.tasks.ota.unstarted)
                    # the node is now 'offered': in unstarted with the same firmware id, no longer in requested
                    and F(data)[0] in self.tasks.ota.unstarted
                    and F(data)[0] not in self.tasks.ota.requested
                    and self.tasks.ota.unstarted[F(data)[0]]
                    == fw_of(old.self.tasks.ota, F(data)[0], old.self.tasks.ota.requested, old.self.tasks.ota.unstarted)
                    and forall(
                        "node",
                        lambda m: m == F(data)[0]
                        or (
                            (m in self.tasks.ota.requested) == (m in old.self.tasks.ota.requested)
                            and (m in self.tasks.ota.unstarted) == (m in old.self.tasks.ota.unstarted)
                            and self.tasks.ota.requested[m] == old.self.tasks.ota.requested[m]
                            and self.tasks.ota.unstarted[m] == old.self.tasks.ota.unstarted[m]
                        ),
                    )
                    and (
                        (
                            fw_of(old.self.tasks.ota, F(data)[0], old.self.tasks.ota.requested, old.self.tasks.ota.unstarted)
                            not in old.self.tasks.ota.firmware
                            and result is None
                        )
                        or (
                            fw_of(old.self.tasks.ota, F(data)[0], old.self.tasks.ota.requested, old.self.tasks.ota.unstarted)
                            in old.self.tasks.ota.firmware
                            and result
                            == wire.canon(
                                F(data)[0],
                                F(data)[1],
                                proto.STREAM,
                                F(data)[3],
                                1,
                                config_payload(old.self.tasks.ota, fw_of(old.self.tasks.ota, F(data)[0], old.self.tasks.ota.requested, old.self.tasks.ota.unstarted)),
                            )
                        )
                    )
                )
            )
        ),
        # block request: served once the node was offered the firmware; marks it as fetching
        "block": lambda old, self, data, result: not (
            accepted(self.protocol_version, data)
            and F(data)[2] == proto.STREAM
            and F(data)[4] == proto.ST_FIRMWARE_REQUEST
            and F(data)[0] in old.self.sensors
            and hex_words_ok(F(data)[5], 3)
        )
        or (
            same_dict(self.tasks.ota.firmware, old.self.tasks.ota.firmware)
            and same_dict(self.tasks.ota.requested, old.self.tasks.ota.requested)
            and (
                (
                    F(data)[0] not in old.self.tasks.ota.unstarted
                    and F(data)[0] not in old.self.tasks.ota.started
                    and result is None
                    and ota_unchanged(self, old.self)
                )
                or (
                    (F(data)[0] in old.self.tasks.ota.unstarted or F(data)[0] in old.self.tasks.ota.started)
                    and F(data)[0] in self.tasks.ota.started
                    and F(data)[0] not in self.tasks.ota.unstarted
                    and self.tasks.ota.started[F(data)[0]]
                    == fw_of(old.self.tasks.ota, F(data)[0], old.self.tasks.ota.unstarted, old.self.tasks.ota.started)
                    and (
                        (
                            (hex_word(F(data)[5], 0), hex_word(F(data)[5], 1)) not in old.self.tasks.ota.firmware
                            and result is None
                        )
                        or (
                            (hex_word(F(data)[5], 0), hex_word(F(data)[5], 1)) in old.self.tasks.ota.firmware
                            and result
                            == wire.canon(
                                F(data)[0],
                                F(data)[1],
                                proto.STREAM,
                                F(data)[3],
                                3,
                                block_payload(old.self.tasks.ota, hex_word(F(data)[5], 0), hex_word(F(data)[5], 1), hex_word(F(data)[5], 2)),
                            )
                        )
                    )
                )
            )
        ),
        # from the update call until the node presents itself again each of its sets is answered with a reboot request
        "reboot-on-set": lambda old, self, data, result: not (
            accepted(self.protocol_version, data)
            and F(data)[2] == proto.SET
            and F(data)[0] in old.self.sensors
            and F(data)[1] in old.self.sensors[F(data)[0]].children
        )
        or (
            self.sensors[F(data)[0]].reboot == old.self.sensors[F(data)[0]].reboot
            and (
                (not old.self.sensors[F(data)[0]].reboot and result is None)
                or (
                    old.self.sensors[F(data)[0]].reboot
                    and (
                        (not proto.sleeping(old.self, F(data)[0]) and result == wire.canon(F(data)[0], 255, proto.INTERNAL, 0, proto.I_REBOOT, ""))
                        or (
                            proto.sleeping(old.self, F(data)[0])
                            and result is None
                            and self.sensors[F(data)[0]].queue
                            == old.self.sensors[F(data)[0]].queue + [wire.canon(F(data)[0], 255, proto.INTERNAL, 0, proto.I_REBOOT, "")]
                        )
                    )
                )
            )
        ),
        "presentation-ends-reboot": lambda old, self, data, result: not (
            accepted(self.protocol_version, data) and F(data)[2] == proto.PRESENTATION and F(data)[1] == 255
        )
        or (F(data)[0] in self.sensors and not self.sensors[F(data)[0]].reboot),
        # nothing but stream requests and update calls moves the session; nothing but presentation/update touches reboot
        "session-frame": lambda old, self, data, result: (accepted(self.protocol_version, data) and F(data)[2] == proto.STREAM)
        or ota_unchanged(self, old.self),
    }


def config_payload(ota, fw_id):
    return le16hex(fw_id[0], fw_id[1], ota.firmware[fw_id]["blocks"], ota.firmware[fw_id]["crc"])


def block_payload(ota, t, v, blk):
    return le16hex(t, v, blk) + hex_of(ota.firmware[t, v]["data"][blk * 16 : blk * 16 + 16])


# ------------------------------------------------------------------------------------------- C14
@contract("mysensors:Gateway.logic", props=["C14"])
class LogicC14:
    configs = _cfg((-1, 0, 1, 2, 3, 4), persistence=True)
    setup = _setup

    def requires(self, data):
        return inv(self)

    raises = {}

    ensures = {
        # I-save: whenever the persisted view changed, the state is marked unsaved (persistence enabled)
        "dirty-on-change": lambda old, self, data, result: not old.G_now.persistence_on
        or old.G_now.persistence_obj.need_save
        or (
            forall(old.self.sensors, lambda m: m in self.sensors and node_view_same(self.sensors[m], old.self.sensors[m]))
            and forall(self.sensors, lambda m: m in old.self.sensors)
        ),
        # a pending 'unsaved' mark is never cleared by message processing
        "dirty-sticky": lambda old, self, data, result: not old.G.persistence_obj.need_save or old.G_now.persistence_obj.need_save,
    }
