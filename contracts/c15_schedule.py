"""C15 - periodic saving heals itself; C14 - a clean stop saves once (SyncTasks / AsyncTasks)."""
import asyncio

import z3

from mysensors import task as T
from mysensors import persistence as P
from pyvc.contract import Loop, contract
from pyvc.core import ExcVal, PyRaise
from pyvc.values import ModelFn, Modelled, Obj, Opaque

from . import fs_model as FSM
from .c12_persistence import _new_content, _persistence, _prior, emit_crash_obligations
from .fs_model import view


def failing_save(it, fn, args, kwargs):
    """the scheduled save: returns, or fails with an I/O error, or - when the network changes while it
    is being written - with the RuntimeError the serialisers raise on concurrent mutation"""
    g = it.ctx.ghost
    g["save_calls"] = g.get("save_calls", 0) + 1
    k = it.ctx.choose([z3.BoolVal(True)] * 3, labels=["save-ok", "save-oserror", "save-runtimeerror"], site="save_sensors")
    if k == 1:
        raise PyRaise(ExcVal(OSError, ("disk full",), site="save_sensors"))
    if k == 2:
        raise PyRaise(ExcVal(RuntimeError, ("dictionary changed size during iteration",), site="save_sensors"))
    return None


def _tasks(cls):
    t = Obj(cls, name="tasks")
    t.fields.update(_cancel_save=None, persistence=None, queue=None)
    return t


def _sync_tick(tasks, save):
    """one tick of the threaded schedule: what the Timer thread runs"""
    tick = tasks._schedule_factory(save)
    tick()
    return tasks


@contract("mysensors.task:SyncTasks._schedule_factory", props=["C15"], name="schedule_save")
class SyncSchedule:
    lemma = True
    params = ["tasks", "save"]
    body = _sync_tick

    def setup(h):
        return [_tasks(T.SyncTasks), Opaque("save_sensors", failing_save)], {}

    # whatever the save does, the tick must end with the next timer armed; a failure may be reported
    # (logged / propagated into the timer thread) but must not stop the schedule
    raises = {OSError: True, RuntimeError: True}
    exc_ensures = {"re-armed-after-failure": lambda old, tasks, save, exc: armed(1)}
    ensures = {
        "re-armed": lambda old, tasks, save, result: armed(1) and tasks._cancel_save is not None,
        "saved-once-per-tick": lambda old, tasks, save, result: saves(1),
    }


def armed(n):
    return True


def saves(n):
    return True


def _vocab(it):
    g = it.ctx.ghost
    it.models[id(armed)] = ModelFn("armed", lambda it2, a, k: g.get("timers_armed", 0) == a[0])
    it.models[id(saves)] = ModelFn("saves", lambda it2, a, k: g.get("save_calls", 0) == a[0])
    it.models[id(loop_was_cancelled)] = ModelFn("loop_was_cancelled", lambda it2, a, k: bool(g.get("cancel_delivered")))
    it.models[id(spawned_one_task)] = ModelFn("spawned_one_task", lambda it2, a, k: len([s for s in g.get("spawned", []) if s["kind"] == "task"]) == 1)


def spawned_one_task():
    return True


def loop_was_cancelled():
    return True


for _c in (SyncSchedule,):
    _s = _c.__dict__["setup"]

    def _wrap(h, _s=_s):
        _vocab(h.it)
        return _s(h)

    _c.setup = _wrap


async def _async_loop(tasks, save):
    """the asyncio schedule: start it, then run the spawned save loop"""
    schedule = tasks._schedule_factory(save)
    await schedule()
    return tasks


def _run_spawned(it):
    """run the body of the task the schedule spawned (the save loop)"""
    sp = [s for s in it.ctx.ghost.get("spawned", []) if s["kind"] == "task"]
    return it.run_coro(sp[0]["target"])


@contract("mysensors.task:AsyncTasks._schedule_factory", props=["C14", "C15"], name="save_on_schedule")
class AsyncSchedule:
    lemma = True
    params = ["tasks", "save"]
    # the loop `while True` of save_on_schedule is cut at the trivial invariant: one arbitrary iteration
    loops = {("mysensors.task", "*save_on_schedule", 0): Loop(lambda L, old, G: True)}

    def body(tasks, save):
        return run_schedule_and_loop(tasks, save)

    def setup(h):
        _vocab(h.it)
        # stop() cancels this task whenever it likes: also while a save is running in the executor thread
        h.it.env["executor_cancellable"] = True

        def m_run(it2, a, k):
            tasks, save = a
            fac = it2.getattr(tasks, "_schedule_factory")
            sched = it2.call(fac, [save], {})
            co = it2.call(sched, [], {})
            it2.run_coro(co)
            _run_spawned(it2)
            return tasks

        h.it.models[id(run_schedule_and_loop)] = ModelFn("run_schedule_and_loop", m_run)
        return [_tasks(T.AsyncTasks), Opaque("save_sensors", failing_save)], {}

    # the save loop ends only by cancellation - at the sleep or while a save is in the executor - and then silently:
    # no failure of a save and no CancelledError may escape it (stop() awaits the cancelled task before its final
    # save; an exception out of that await would abort stop() before anything is saved: C14)
    raises = {}
    ensures = {
        "task-spawned": lambda old, tasks, save, result: spawned_one_task() and tasks._cancel_save is not None,
        # the body below runs the spawned loop to its end: it may only come to an end because a cancellation was
        # delivered (at the sleep, or at the executor await) - never because a save failed, whatever it failed with
        "ends-only-when-cancelled": lambda old, tasks, save, result: loop_was_cancelled(),
    }


def run_schedule_and_loop(tasks, save):
    return tasks


# ------------------------------------------------------------------------------------------- C14: stop()
def _stop_setup(cls):
    def setup(h):
        c = h.config
        _vocab(h.it)
        it, ctx = h.it, h.ctx
        log = []
        ctx.ghost["stoplog"] = log
        t = Obj(cls, name="tasks")
        if c.get("persistence", True):
            p, fs = _persistence(h, c["fmt"], need_save=c.get("dirty", True))
            v_old = _prior(h, fs, c.get("prior", "main"))
            new = _new_content(h)
            it.env.update(v_old=v_old, v_new=view(new))
            fs.obligation_hook = lambda fs_, idx, name, path: log.append("fs:" + name)
        else:
            p = None
        tr = Modelled("transport")
        tr.attrs["disconnect"] = ModelFn("transport.disconnect", lambda it2, a, k: log.append("disconnect"))
        tr.attrs["connect_task"] = None
        ev = Modelled("Event")
        ev.attrs["set"] = ModelFn("Event.set", lambda it2, a, k: log.append("stop-flag"))
        if cls is T.AsyncTasks:
            from pyvc.values import Awaitable

            def cancel(it2, a, k):
                return Awaitable(lambda it3: log.append("cancel-timer"), "cancel_save")

            cancel_fn = ModelFn("cancel_save", cancel)
        else:
            cancel_fn = ModelFn("cancel_save", lambda it2, a, k: log.append("cancel-timer"))
        # one job is still queued when the user stops the gateway: it belongs to the pump (the only consumer of the
        # queue - "each sent exactly once, in queue order" rests on that), so stop() must neither run nor send it
        import collections

        tr.attrs["send"] = ModelFn("transport.send", lambda it2, a, k: log.append("send"))
        job = ModelFn("queued-job", lambda it2, a, k: (log.append("job-run"), "1;1;1;0;2;1\n")[1])
        queue = collections.deque([(job, ())])
        it.env["stop_queue"] = queue
        t.fields.update(
            transport=tr,
            _stop_event=ev,
            persistence=p,
            _cancel_save=cancel_fn if c.get("scheduled", True) else None,
            queue=queue,
        )

        def m_order(it2, a, k):
            first_fs = next((i for i, x in enumerate(log) if x.startswith("fs:")), None)
            ok = log and log[0] == "disconnect"
            if c.get("scheduled", True) and p is not None:
                ok = ok and "cancel-timer" in log and (first_fs is None or log.index("cancel-timer") < first_fs)
                ok = ok and log.count("cancel-timer") == 1
            return bool(ok)

        def m_persisted(it2, a, k):
            from pyvc import ops

            if p is None:
                return True
            fs_ = it2.env["fs"]
            if not c.get("dirty", True):
                return len(fs_.ops) == 0
            st = fs_.crash_states(lose_unsynced=False)[0]
            dur = fs_.crash_states(lose_unsynced=True)
            terms = [fs_.recover_term(st) == it2.env["v_new"]]
            # the completed save is also durable up to its last directory operation: a crash right after
            # stop() yields the new state or (if the last rename is not on disk yet) the old one
            for s_ in dur:
                terms.append(z3.Or(fs_.recover_term(s_) == it2.env["v_new"], fs_.recover_term(s_) == it2.env["v_old"]))
            return ops.mk("bool", z3.And(terms))

        it.models[id(queue_left_to_the_pump)] = ModelFn(
            "queue_left_to_the_pump", lambda it2, a, k: len(queue) == 1 and "job-run" not in log and "send" not in log
        )
        it.models[id(stop_order_ok)] = ModelFn("stop_order_ok", m_order)
        it.models[id(state_persisted)] = ModelFn("state_persisted", m_persisted)
        return [t], {}

    return setup


def stop_order_ok():
    return True


def queue_left_to_the_pump():
    return True


def state_persisted():
    return True


_STOP_CFG = [
    {"fmt": f, "dirty": d, "scheduled": s, "prior": pr}
    for f in ("json", "pickle")
    for d in (True, False)
    for s in (True, False)
    for pr in ("none", "main")
] + [{"persistence": False, "fmt": "json"}]


@contract("mysensors.task:SyncTasks.stop", props=["C14", "C16", "C20"])
class SyncStop:
    configs = _STOP_CFG
    setup = _stop_setup(T.SyncTasks)
    raises = {}
    ensures = {
        # stop disconnects first, cancels the pending timer, then saves exactly once: nothing is lost
        "order": lambda old, self, result: stop_order_ok(),
        "persisted": lambda old, self, result: state_persisted() and (self.persistence is None or not self.persistence.need_save),
        "timer-forgotten": lambda old, self, result: self.persistence is None or self._cancel_save is None,
        # stop() is not a second consumer of the job queue and writes nothing itself (C16: exactly once, in queue
        # order; C20: no writes once stop() has been called)
        "queue-left-to-the-pump": lambda old, self, result: queue_left_to_the_pump(),
    }


@contract("mysensors.task:AsyncTasks.stop", props=["C14", "C16", "C20"])
class AsyncStop:
    configs = _STOP_CFG
    setup = _stop_setup(T.AsyncTasks)
    raises = {}
    ensures = {
        "order": lambda old, self, result: stop_order_ok(),
        "persisted": lambda old, self, result: state_persisted() and (self.persistence is None or not self.persistence.need_save),
        "timer-forgotten": lambda old, self, result: self.persistence is None or self._cancel_save is None,
        # stop() is not a second consumer of the job queue and writes nothing itself (C16: exactly once, in queue
        # order; C20: no writes once stop() has been called)
        "queue-left-to-the-pump": lambda old, self, result: queue_left_to_the_pump(),
    }
