"""Gateway.logic - the dispatcher: entry contracts for C01/C04/C05/C07/C08/C10/C14."""
import z3

from pyvc.contract import contract, forall, forall2, forall3, implies, same_dict
from spec import api, wire

from . import summaries
from .inv import i_children, i_desired, i_nodes, i_ota, i_queue, i_values, inv, inv_shape
from .loops_sleep import LOOPS
from .state import VERSIONS, make_gateway

CMDS = (-1, 0, 1, 2, 3, 4)


# the internal command is split into sub-type groups so that the work spreads over the cores
INTERNAL_GROUPS = ((22, 32), (1, 3, 6, 14), (0, 2, 9, 11, 12))


def split_internal(cfgs):
    out = []
    for c in cfgs:
        if c.get("cmd") == 3:
            allm = []
            for i, g in enumerate(INTERNAL_GROUPS):
                out.append(dict(c, subs=i))
                allm.extend(g)
            out.append(dict(c, subs="rest"))
        else:
            out.append(c)
    return out


def bucket_of(cfg):
    s = cfg.get("subs")
    if s is None:
        return None
    if s == "rest":
        return {"in": False, "members": [m for g in INTERNAL_GROUPS for m in g]}
    return {"in": True, "members": list(INTERNAL_GROUPS[s])}


def _configs(tier=None):
    return split_internal([{"version": v, "cmd": c} for v in VERSIONS for c in CMDS])


def _setup(h):
    gw = make_gateway(h, h.config.get("version", "1.4"), persistence=h.config.get("persistence", "sym"))
    summaries.install(h.it)
    h.it.loop_contracts.update(LOOPS)
    h.it.env["cfg_cmd"] = h.config.get("cmd")
    h.it.env["cfg_subs"] = bucket_of(h.config)

    def note_new_id(it, args, rv):
        if len(args) == 1 or args[1] is None:  # add_sensor() without id: an allocation
            it.ctx.ghost["new_id"] = rv

    h.it.post_hooks[("mysensors", "Gateway.add_sensor")] = note_new_id
    data = h.sym("str", "data")
    # the sender of the inbound line, as the term wire.fields(data)[0] evaluates to
    from pyvc.core import SV, strlit
    from pyvc.laws import py_int, py_rstrip, split_get

    h.ctx.ghost["sender"] = SV("int", py_int(split_get(py_rstrip(data.term), strlit(";"), z3.IntVal(0))))
    return [gw, data], {}


def accepted(version, data):
    """the line is well formed and valid for the configured version"""
    return wire.decodable(data) and api.valid(
        version,
        wire.fields(data)[0],
        wire.fields(data)[1],
        wire.fields(data)[2],
        wire.fields(data)[3],
        wire.fields(data)[4],
        wire.fields(data)[5],
    )


def ota_unchanged(gw, gw_old):
    return (
        same_dict(gw.tasks.ota.requested, gw_old.tasks.ota.requested)
        and same_dict(gw.tasks.ota.unstarted, gw_old.tasks.ota.unstarted)
        and same_dict(gw.tasks.ota.started, gw_old.tasks.ota.started)
        and same_dict(gw.tasks.ota.firmware, gw_old.tasks.ota.firmware)
    )


def untouched(old, gw):
    """no state change, no reply, no event callback"""
    return (
        same_dict(gw.sensors, old.self.sensors)
        and ota_unchanged(gw, old.self)
        and old.G_now.sent == old.G.sent
        and len(old.G_now.events) == 0
        and old.G_now.persistence_obj.need_save == old.G.persistence_obj.need_save
        and gw.metric == old.self.metric
    )


@contract("mysensors:Gateway.logic", props=["C01"])
class LogicC01:
    configs = _configs
    setup = _setup

    def requires(self, data):
        return inv(self)

    raises = {}  # nothing may escape, whatever the line and whatever the state

    ensures = {
        # a malformed line, or one not valid for the configured version, has no effect at all
        "no-effect": lambda old, self, data, result: accepted(self.protocol_version, data)
        or (result is None and untouched(old, self)),
        "inv.nodes": lambda old, self, data, result: i_nodes(self),
        "inv.children": lambda old, self, data, result: i_children(self),
        "inv.values": lambda old, self, data, result: i_values(self),
        "inv.desired": lambda old, self, data, result: i_desired(self),
        "inv.queue": lambda old, self, data, result: i_queue(self),
        "inv.ota": lambda old, self, data, result: i_ota(self),
    }
