"""C17 - MQTT topics and commands map one-to-one (BaseMQTTGateway parse functions, subscriptions, callbacks)."""
import z3

from mysensors import gateway_mqtt as GM
from mysensors.message import Message
from pyvc.contract import contract
from pyvc.core import ExcVal, PyRaise
from pyvc.values import ModelFn, Modelled, Obj, Opaque
from spec import wire
from spec.prims import int_of, int_ok

from . import summaries


def _gw(h, in_prefix=None):
    gw = Obj(GM.BaseMQTTGateway, name="mqtt-gateway")
    tr = Modelled("transport")
    tr.attrs["in_prefix"] = in_prefix if in_prefix is not None else h.sym("str", "in_prefix")
    tasks = Modelled("tasks")
    tasks.attrs["transport"] = tr
    gw.fields.update(tasks=tasks)
    return gw


@contract("mysensors.gateway_mqtt:BaseMQTTGateway.parse_message_to_mqtt", props=["C17"])
class ToMqtt:
    def setup(h):
        return [_gw(h), h.sym("str", "data")], {}

    def requires(self, data):
        # what the gateway hands to the transport: a canonical line (C05 well-formedness)
        return (
            wire.decodable(data)
            and wire.carriable(wire.fields(data)[5])
            and data
            == wire.canon(
                wire.fields(data)[0], wire.fields(data)[1], wire.fields(data)[2], wire.fields(data)[3], wire.fields(data)[4], wire.fields(data)[5]
            )
        )

    raises = {}
    ensures = {
        # topic = /node/child/type/ack/subtype, payload apart, qos = ack
        "topic": lambda old, self, data, result: result[0]
        == "/"
        + str(wire.fields(data)[0])
        + "/"
        + str(wire.fields(data)[1])
        + "/"
        + str(wire.fields(data)[2])
        + "/"
        + str(wire.fields(data)[3])
        + "/"
        + str(wire.fields(data)[4]),
        "payload-and-qos": lambda old, self, data, result: result[1] == wire.fields(data)[5] and result[2] == wire.fields(data)[3],
    }


@contract("mysensors.gateway_mqtt:BaseMQTTGateway.parse_mqtt_to_message", props=["C17"])
class FromMqtt:
    configs = [{"qos": q} for q in ("none", "sym")]

    def setup(h):
        q = None if h.config["qos"] == "none" else h.sym("int", "qos")
        return [_gw(h), h.sym("str", "topic"), h.sym("str", "payload"), q], {}

    raises = {}
    ensures = {
        # accepted exactly when the topic is the inbound prefix followed by its last five levels
        "accepted-iff-prefix-plus-five-levels": lambda old, self, topic, payload, qos, result: (result is None)
        == (not has_form(self.tasks.transport.in_prefix, topic)),
        # the command: the five levels with the ack level replaced by the QoS, then the payload
        "command": lambda old, self, topic, payload, qos, result: result is None
        or result
        == level(topic, 5)
        + ";"
        + level(topic, 4)
        + ";"
        + level(topic, 3)
        + ";"
        + ("1" if (qos is not None and qos > 0) else "0")
        + ";"
        + level(topic, 1)
        + ";"
        + payload,
    }


def level(topic, k):
    """the k-th level from the end (1 = last) of a topic"""
    return topic.split("/")[len(topic.split("/")) - k]


def has_form(prefix, topic):
    """topic = prefix / l1 / l2 / l3 / l4 / l5 where l1..l5 are the last five levels of the topic
    (levels never contain '/': they are what split('/') yields)"""
    return len(topic.split("/")) >= 5 and topic == prefix + "/" + level(topic, 5) + "/" + level(topic, 4) + "/" + level(topic, 3) + "/" + level(topic, 2) + "/" + level(topic, 1)


def _roundtrip(gw, line):
    topic, payload, qos = gw.parse_message_to_mqtt(line)
    return gw.parse_mqtt_to_message(gw.tasks.transport.in_prefix + topic, payload, qos)


@contract("mysensors.gateway_mqtt:BaseMQTTGateway.parse_mqtt_to_message", props=["C17"], name="L.publish-then-receive")
class LemmaRoundTrip:
    """for every prefix (also one that looks like message levels) and every canonical command: publishing
    it and receiving it back through the topic mapping reproduces the command; QoS > 0 exactly when ack = 1"""

    lemma = True
    params = ["gw", "line"]
    body = _roundtrip

    def setup(h):
        return [_gw(h), h.sym("str", "line")], {}

    def requires(gw, line):
        return (
            wire.decodable(line)
            and wire.carriable(wire.fields(line)[5])
            and (wire.fields(line)[3] == 0 or wire.fields(line)[3] == 1)
            and line
            == wire.canon(
                wire.fields(line)[0], wire.fields(line)[1], wire.fields(line)[2], wire.fields(line)[3], wire.fields(line)[4], wire.fields(line)[5]
            )
        )

    raises = {}
    ensures = {"same-command": lambda old, gw, line, result: result is not None and result + "\n" == line}


# ------------------------------------------------------------------------------------------- callbacks
def _mqtt_transport(h, raising):
    log = []
    h.ctx.ghost["mqttlog"] = log

    def cb(kind):
        def fn(it, f, a, k):
            log.append((kind,) + tuple(a))
            if raising:
                kk = it.ctx.choose([z3.BoolVal(True), z3.BoolVal(True)], labels=["cb-returns", "cb-raises"], site=kind)
                if kk == 1:
                    raise PyRaise(ExcVal(RuntimeError, ("broker gone",), site=kind))
            return None

        return fn

    t = Obj(GM.MQTTTransport, name="mqtt-transport")
    gw = Modelled("gateway")
    gw.attrs["parse_message_to_mqtt"] = ModelFn("parse_message_to_mqtt", lambda it, a, k: ("/t", "p", 0))
    t.fields.update(
        _pub_callback=Opaque("pub_callback", cb("publish")),
        _sub_callback=Opaque("sub_callback", cb("subscribe")),
        in_prefix=h.sym("str", "in_prefix"),
        out_prefix=h.sym("str", "out_prefix"),
        _retain=h.sym("bool", "retain"),
        gateway=gw,
        recv=None,
    )
    return t, log


@contract("mysensors.gateway_mqtt:MQTTTransport.send", props=["C17"])
class MqttSend:
    def setup(h):
        t, log = _mqtt_transport(h, True)
        h.it.models[id(published_once)] = ModelFn("published_once", lambda it, a, k: len([e for e in log if e[0] == "publish"]) == 1)
        return [t, h.sym("str", "message")], {}

    raises = {}  # a publish callback that raises never stops the pump
    ensures = {"published-once-or-empty": lambda old, self, message, result: message == "" or published_once()}


def published_once():
    return True


@contract("mysensors.gateway_mqtt:MQTTTransport.handle_subscription", props=["C17"])
class HandleSubscription:
    configs = [{"n": n} for n in (1, 3)]

    def setup(h):
        t, log = _mqtt_transport(h, True)
        from pyvc.laws import lawbook
        from pyvc.core import lift
        from pyvc import ops

        lb = lawbook(h.ctx)
        topics = []
        for i in range(h.config["n"]):
            # the gateway's own topics: "/" followed by five levels
            parts = []
            for j in range(5):
                parts += [lift("/")[1], h.sym("str", f"t{i}l{j}").term]
            topics.append(ops.mk("str", lb.concat(parts)))
        h.it.models[id(subscribed_all)] = ModelFn(
            "subscribed_all", lambda it, a, k: len([e for e in log if e[0] == "subscribe"]) == h.config["n"]
        )
        return [t, topics if h.config["n"] > 1 else topics[0]], {}

    raises = {}  # a subscribe callback that raises never stops the pump, and the remaining topics are still subscribed
    ensures = {"every-topic-subscribed": lambda old, self, topics, result: subscribed_all()}


def subscribed_all():
    return True


# ------------------------------------------------------------------------------------------- subscriptions
from pyvc.contract import forall, forall2
from pyvc.laws import lawbook

from .inv import inv_shape


def _sub_gateway(h, version="2.0", persistence=True):
    from .inv import inv_shape
    from .state import make_gateway

    gw = make_gateway(h, version, persistence=persistence, cls=GM.BaseMQTTGateway)
    subs = []
    h.ctx.ghost["subscriptions"] = subs
    tr = Modelled("transport")
    tr.attrs["handle_subscription"] = ModelFn("handle_subscription", lambda it, a, k: subs.append(a[0]))
    gw.fields["tasks"].fields["transport"] = tr
    return gw, subs


def _topic_term(h, parts):
    from pyvc.core import lift
    from pyvc import ops

    lb = lawbook(h.ctx)
    ts = []
    for p in parts:
        ts.append(lift(ops.to_str(h.it, p) if not isinstance(p, str) else p)[1])
    return lb.concat(ts)


def _covers(h, subs, skolem_keys, expected_term):
    """is `expected_term` (a topic built from the skolem keys) an element of what was subscribed?"""
    disj = []
    for s in subs:
        items = [s] if type(s).__name__ == "CompList" else None
        if items is None:
            lst = s if isinstance(s, list) else [s]
            for x in lst:
                from pyvc.core import lift

                if type(x).__name__ == "CompList":
                    continue
                disj.append(lift(ops_force(x))[1] == expected_term)
            continue
        for cl in [s] + [e for e in s.extra if type(e).__name__ == "CompList"]:
            if len(cl.skolems) != len(skolem_keys):
                continue
            sub = list(zip(cl.skolems, skolem_keys))
            for e in cl.elems:
                from pyvc.core import lift

                disj.append(z3.substitute(lift(ops_force(e))[1], *sub) == expected_term)
        for e in s.extra:
            if isinstance(e, list):
                for x in e:
                    from pyvc.core import lift

                    disj.append(lift(ops_force(x))[1] == expected_term)
    return z3.Or(disj) if disj else z3.BoolVal(False)


def ops_force(x):
    from pyvc import ops

    return ops.force(x)


@contract("mysensors.gateway_mqtt:BaseMQTTGateway.init_topics", props=["C17"])
class InitTopics:
    configs = [{"version": v} for v in ("1.4", "2.2")]

    def setup(h):
        gw, subs = _sub_gateway(h, h.config["version"])
        ctx = h.ctx

        def m_wild(it, a, k):
            from pyvc.core import lift

            flat = [x for s in subs if isinstance(s, list) for x in s]
            return "/+/+/0/+/+" in flat and "/+/+/3/+/+" in flat

        def m_child(it, a, k):
            # for an arbitrary restored node n and child c: /n/c/1/+/+ and /n/c/2/+/+ and /n/+/4/+/+ are subscribed
            from pyvc import ops

            n = ctx.fresh("int", "sk_node")
            c = ctx.fresh("int", "sk_child")
            ctx.add_index_term("node", n.term)
            ctx.add_index_term("child", c.term)
            sens = gw.fields["sensors"]
            guard = z3.And(sens.contains(n), sens.read(n).get_field("children").contains(c))
            goals = []
            for t in (1, 2):
                goals.append(_covers(h, subs, [n.term, c.term], _topic_term(h, ["/", n, "/", c, "/", str(t), "/+/+"])))
            goals.append(_covers(h, subs, [n.term], _topic_term(h, ["/", n, "/+/", "4", "/+/+"])))
            return ops.mk("bool", z3.Implies(guard, z3.And(goals)))

        h.it.models[id(wildcards_subscribed)] = ModelFn("wildcards_subscribed", m_wild)
        h.it.models[id(children_subscribed)] = ModelFn("children_subscribed", m_child)
        return [gw], {}

    def requires(self):
        return inv_shape(self)

    raises = {}
    ensures = {
        "wildcards": lambda old, self, result: wildcards_subscribed(),
        "restored-children": lambda old, self, result: children_subscribed(),
    }


def wildcards_subscribed():
    return True


def children_subscribed():
    return True


# ------------------------------------------------------------------------------------------- presented children
from mysensors import handler as HD


def presented_child_subscribed():
    return True


@contract("mysensors.gateway_mqtt:BaseMQTTGateway._handle_presentation", props=["C17"])
class MqttPresentation:
    """the MQTT gateway's presentation handler: a child presentation that the ordinary handler accepted
    subscribes, once, to the child's set and req topics and to its node's stream topic; a node presentation
    or a rejected one subscribes to nothing"""

    configs = [{"accepted": a, "version": v} for a in (True, False) for v in ("1.4", "2.2")]

    def setup(h):
        from mysensors.const import get_const

        it, ctx = h.it, h.ctx
        subs = []
        tr = Modelled("transport")
        tr.attrs["handle_subscription"] = ModelFn("handle_subscription", lambda it2, a, k: subs.append(a[0]))
        tasks = Modelled("tasks")
        tasks.attrs["transport"] = tr
        gw = Obj(GM.BaseMQTTGateway, name="mqtt-gateway")
        gw.fields.update(const=get_const(h.config["version"]), tasks=tasks)
        msg = Obj(Message, name="msg")
        n, c = h.sym("int", "node_id"), h.sym("int", "child_id")
        msg.fields.update(node_id=n, child_id=c, type=0, ack=0, sub_type=h.sym("int", "sub_type"), payload=h.sym("str", "payload"), gateway=gw)
        accepted = h.config["accepted"]
        it.models[id(HD.handle_presentation)] = ModelFn("handle_presentation", lambda it2, a, k: a[0] if accepted else None)

        def m_ok(it2, a, k):
            from pyvc import ops
            from pyvc.core import lift

            is_child = ops.truth(it2, ops.compare(it2, "NotEq", c, 255))
            if not accepted or is_child is False:
                return subs == []
            if is_child is not True:
                # the path condition decides (the code has branched on child_id == 255): one call or none
                if subs == []:
                    return ops.mk("bool", z3.Not(is_child))
            if len(subs) != 1 or not isinstance(subs[0], list) or len(subs[0]) != 3:
                return False
            want = [
                _topic_term(h, ["/", n, "/", c, "/", "1", "/+/+"]),
                _topic_term(h, ["/", n, "/", c, "/", "2", "/+/+"]),
                _topic_term(h, ["/", n, "/+/", "4", "/+/+"]),
            ]
            got = [lift(ops.force(x))[1] for x in subs[0]]
            eq = z3.And([g == w for g, w in zip(got, want)])
            return ops.mk("bool", eq if is_child is True else z3.And(is_child, eq))

        it.models[id(presented_child_subscribed)] = ModelFn("presented_child_subscribed", m_ok)
        return [gw, msg], {}

    raises = {}
    ensures = {"child-topics-subscribed": lambda old, self, msg, result: presented_child_subscribed()}
