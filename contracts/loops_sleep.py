"""Loop contracts of the smart-sleep code (C07/C08): invariants keyed by function and ordinal."""
from pyvc.contract import Loop, all_addressed, as_str, forall, frame_except, implies, is_none, is_prefix, same_dict, same_item


def init_inv(L, old, G, V):
    """Sensor.init_smart_sleep_mode: after visiting the children in V, the desired-state dict has an
    (empty) entry for every visited child that had none; nothing else changed."""
    return (
        frame_except(L.self, old.self, "new_state")
        and forall("child", lambda c: (c in L.self.new_state) == (c in old.self.new_state or c in V))
        and forall(old.self.new_state, lambda c: same_item(L.self.new_state, old.self.new_state, c))
        and forall(
            V,
            lambda c: c in old.self.new_state
            or (
                L.self.new_state[c].id == L.self.children[c].id
                and L.self.new_state[c].type == L.self.children[c].type
                and L.self.new_state[c].description == L.self.children[c].description
                and not L.self.new_state[c].values
            ),
        )
    )


def flush_queue_inv(L, old, G):
    """while sensor.queue: every withheld reply goes out once, oldest first:
    sent0 ++ queue0 == sent ++ queue (decomposition form, no indices)."""
    return (
        frame_except(L.sensor, old.sensor, "queue")
        and (old.G.sent + old.sensor.queue == G.sent + L.sensor.queue)
        and G.rawjobs + len(L.sensor.queue) == old.G.rawjobs + len(old.sensor.queue)
        # what is still withheld is for this node, and so was everything handed over so far
        and all_addressed(L.sensor.queue, L.msg.node_id)
        and implies(old.G.jobs_ok, G.jobs_ok)
    )


def due(sensor, c, vt):
    """the node has reported value type vt of child c before, and a desired value is pending for it"""
    return (
        c in sensor.children
        and c in sensor.new_state
        and vt in sensor.children[c].values
        and vt in sensor.new_state[c].values
        and not is_none(sensor.new_state[c].values[vt])
    )


def desired_outer_inv(L, old, G, V):
    """for child in sensor.children.values(): exactly one set command per due (child, value type)
    of the visited children, carrying the desired value; none for the others; replies stay a prefix."""
    return (
        is_prefix(old.G.sent, G.sent)
        and implies(old.G.jobs_ok, G.jobs_ok)
        and len(G.sent) == len(old.G.sent) + (G.setjobs - old.G.setjobs)
        and G.setjobs >= old.G.setjobs
        and forall(
            ("child", "vt"),
            lambda c, vt: G.setcount[c][vt] == (1 if (c in V and due(L.sensor, c, vt)) else 0)
            and (not (c in V and due(L.sensor, c, vt)) or G.setpay[c][vt] == as_str(L.sensor.new_state[c].values[vt])),
        )
    )


def desired_inner_inv(L, old, G, V):
    """for value_type in child.values: as above, plus the visited value types of the current child"""
    return (
        is_prefix(old.G.sent, G.sent)
        and implies(old.G.jobs_ok, G.jobs_ok)
        and len(G.sent) == len(old.G.sent) + (G.setjobs - old.G.setjobs)
        and G.setjobs >= old.G.setjobs
        and forall(
            ("child", "vt"),
            lambda c, vt: G.setcount[c][vt]
            == (1 if (((c in L.visited_1) or (c == L.child.id and vt in V)) and due(L.sensor, c, vt)) else 0)
            and (
                not (((c in L.visited_1) or (c == L.child.id and vt in V)) and due(L.sensor, c, vt))
                or G.setpay[c][vt] == as_str(L.sensor.new_state[c].values[vt])
            ),
        )
    )


LOOPS = {
    ("mysensors.handler", "handle_smartsleep", 1): Loop(desired_outer_inv, ghosts=["sent", "setcount", "setpay", "setjobs", "jobs_ok"], header="for child in sensor.children.values()"),
    ("mysensors.handler", "handle_smartsleep", 2): Loop(desired_inner_inv, ghosts=["sent", "setcount", "setpay", "setjobs", "jobs_ok"], header="for value_type, _ in child.values.items()"),
    ("mysensors.sensor", "Sensor.init_smart_sleep_mode", 0): Loop(init_inv, modifies=["sensors.new_state"], rows={"sensors.new_state": "self"}, header="for child in self.children.values()"),
    ("mysensors.handler", "handle_smartsleep", 0): Loop(flush_queue_inv, modifies=["sensors.queue"], rows={"sensors.queue": "sensor"}, ghosts=["sent", "rawjobs", "jobs_ok"], header="while sensor.queue"),
}
