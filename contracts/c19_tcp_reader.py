"""C19/C20 - the reader thread of the threaded TCP flavour (`TCPTransport.run`): every chunk the socket
returns is handed to the protocol exactly once and in order; the watchdog is consulted on every iteration;
whatever ends the loop, `connection_lost` is reported exactly once, with the error that ended it (None after a
local close); a protocol whose `connection_made` fails is told `connection_lost` with that failure."""
import select
import time as _time

import z3

from mysensors import gateway_tcp as GT
from pyvc.contract import Loop, contract
from pyvc.core import BYTES, ExcVal, PyRaise
from pyvc.values import ModelFn, Modelled, Obj, SeqVal, VolatileField


def iteration_delivers_chunk_once():
    return True


def reported_lost_once():
    return True


def no_pending_error(L):
    return True


def _env(h):
    it, ctx = h.it, h.ctx
    log = []
    ctx.ghost["readerlog"] = log
    c = h.config
    state = {"visits": 0, "closed": False}

    def fails(site, classes=(OSError,)):
        """the primitive completes or raises (T-serial); which one is the path's choice"""
        labels = ["ok"] + [cl.__name__ for cl in classes]
        kk = ctx.choose([z3.BoolVal(True)] * len(labels), labels=labels, site=site)
        if kk:
            e = ExcVal(classes[kk - 1], (site,), site=site)
            log.append(("raised", site, e))
            raise PyRaise(e)

    proto = Modelled("protocol")

    def connection_made(it2, a, k):
        log.append(("connection_made", a[0] is tr))
        if c.get("made_fails"):
            e = ExcVal(RuntimeError, ("connection_made failed",), site="connection_made")
            log.append(("raised", "connection_made", e))
            raise PyRaise(e)

    def data_received(it2, a, k):
        log.append(("data_received", a[0]))
        fails("data_received", (ValueError,))

    proto.attrs.update(
        connection_made=ModelFn("connection_made", connection_made),
        data_received=ModelFn("data_received", data_received),
        connection_lost=ModelFn("connection_lost", lambda it2, a, k: log.append(("connection_lost", a[0]))),
    )
    sock = Modelled("socket")

    def recv(it2, a, k):
        fails("recv")
        kk = ctx.choose([z3.BoolVal(True)] * 2, labels=["bytes", "empty"], site="recv-result")
        data = SeqVal("byte", ctx.fresh_term(BYTES, "chunk"), "bytes") if kk == 0 else b""
        if kk == 0:
            ctx.add_fact(z3.Length(data.term) >= 1)
        log.append(("recv", a[0], data))
        return data

    sock.attrs.update(recv=ModelFn("recv", recv), setblocking=ModelFn("setblocking", lambda it2, a, k: None))

    def m_select(it2, a, k):
        fails("select")
        kk = ctx.choose([z3.BoolVal(True)] * 3, labels=["readable", "idle", "errored"], site="select")
        log.append(("select", ("readable", "idle", "errored")[kk]))
        return ([sock] if kk == 0 else [], [sock], [sock] if kk == 2 else [])

    it.models[id(select.select)] = ModelFn("select.select", m_select)
    it.models[id(_time.sleep)] = ModelFn("time.sleep", lambda it2, a, k: log.append(("sleep", a[0])))

    def check_conn(it2, a, k):
        log.append(("check_connection",))
        fails("check_connection")

    ev = Modelled("Event")
    ev.attrs["set"] = ModelFn("Event.set", lambda it2, a, k: log.append(("made-event-set",)))

    def read_alive(it2):
        # rely: close() from another thread clears the flag
        if state["closed"]:
            return False
        kk = ctx.choose([z3.BoolVal(True)] * 2, labels=["alive", "closed"], site="read alive")
        if kk == 1:
            state["closed"] = True
            log.append(("closed-locally",))
        return kk == 0

    tr = Obj(GT.TCPTransport, name="tcp-transport")
    tr.fields.update(
        sock=sock,
        protocol_factory=ModelFn("protocol_factory", lambda it2, a, k: proto),
        protocol=None,
        alive=VolatileField(read_alive),
        _check_connection=ModelFn("check_connection", check_conn),
        _connection_made=ev,
        _lock=None,
    )

    def boundary(it2, a, k):
        """loop head.  One arbitrary iteration that came back here did: select; if readable, one recv; a non-empty chunk went to data_received exactly once (that very chunk); then the watchdog;
        then the short sleep.  Nothing was reported lost."""
        state["visits"] += 1
        if state["visits"] <= 2:
            del log[:]
            return True
        names = [e[0] for e in log if e[0] != "closed-locally"]
        if "connection_lost" in names or "raised" in names:
            return False
        if not names or names[0] != "select" or names[-2:] != ["check_connection", "sleep"]:
            return False
        mid = names[1:-2]
        sel = [e for e in log if e[0] == "select"][0][1]
        if sel != "readable":
            return mid == []
        rec = [e for e in log if e[0] == "recv"]
        if len(rec) != 1:
            return False
        chunk = rec[0][2]
        if isinstance(chunk, bytes) and not chunk:
            return mid == ["recv"]
        got = [e for e in log if e[0] == "data_received"]
        return mid == ["recv", "data_received"] and len(got) == 1 and got[0][1] is chunk

    def at_exit(it2, a, k):
        """function exit: connection_lost exactly once, as the last thing reported, with the error that ended the
        loop (None when the flag was cleared locally); a received chunk was still delivered before an error in
        the watchdog is reported; the protocol is forgotten and the thread is marked dead"""
        lost = [e for e in log if e[0] == "connection_lost"]
        if c.get("made_fails"):
            # the protocol refused the connection: it is told so, once, with its own failure; whoever waits for
            # the connection is released; no read loop
            raised = [e for e in log if e[0] == "raised"]
            return (
                [e[0] for e in log] == ["connection_made", "raised", "connection_lost", "made-event-set"]
                and lost[0][1] is raised[0][2]
                and tr.fields.get("alive") is False
            )
        if len(lost) != 1 or log[-1][0] != "connection_lost":
            return False
        raised = [e for e in log if e[0] == "raised"]
        if len(raised) > 1:
            return False
        if not raised and ("select", "errored") in log:
            # the socket reported an exceptional condition: the loop ends with an OSError of its own making
            if not (isinstance(lost[0][1], ExcVal) and lost[0][1].cls is OSError):
                return False
        else:
            want = raised[0][2] if raised else None
            if lost[0][1] is not want:
                return False
        if raised and raised[0][1] == "check_connection":
            rec = [e for e in log if e[0] == "recv"]
            if rec and not (isinstance(rec[0][2], bytes) and not rec[0][2]):
                if not any(e[0] == "data_received" and e[1] is rec[0][2] for e in log):
                    return False
        return tr.fields.get("protocol") is None and tr.fields.get("alive") is False

    it.models[id(iteration_delivers_chunk_once)] = ModelFn("iteration_delivers_chunk_once", boundary)
    it.models[id(reported_lost_once)] = ModelFn("reported_lost_once", at_exit)
    it.models[id(no_pending_error)] = ModelFn("no_pending_error", lambda it2, a, k: a[0].d.get("error") is None)
    return tr


@contract("mysensors.gateway_tcp:TCPTransport.run", props=["C19", "C20"])
class TcpReaderRun:
    configs = [{"made_fails": False}, {"made_fails": True}]
    # (`error`, where the loop keeps one, is only assigned on the way out: at the loop head it is still None.)
    # The key is a pattern: the read loop may live in `run` or in a helper method of the class.
    loops = {("mysensors.gateway_tcp", "TCPTransport.*", 0): Loop(lambda L, old, G: iteration_delivers_chunk_once() and no_pending_error(L), kinds={"error": "keep"})}

    def setup(h):
        return [_env(h)], {}

    raises = {}  # the reader thread never dies of an exception: everything is reported through connection_lost
    ensures = {"lost-once": lambda old, self, result: reported_lost_once()}
