"""C09 - OTA serves exactly the firmware it advertised: padding, block slicing, header packing."""
import struct
import binascii

from mysensors import ota as OTA
from mysensors.message import Message
from pyvc.contract import Loop, contract, env, same_dict
from spec import wire
from pyvc.core import BYTES
from pyvc.values import Obj, SeqVal
from spec.prims import hex_of, hex_word, hex_words_ok, le16hex

from . import summaries
from .gw_calls import ff, pad_inv
from .inv import inv
from .state import make_gateway


def _bytes(h, name):
    return SeqVal("byte", h.ctx.fresh_term(BYTES, name), "bytes")


@contract("mysensors.ota:prepare_fw", props=["C09"])
class PrepareFw:
    loops = {("mysensors.ota", "prepare_fw", 0): Loop(pad_inv)}

    def setup(h):
        summaries.install(h.it, names=("compute_crc",))
        return [_bytes(h, "image")], {}

    raises = {}

    ensures = {
        # the image followed only by 0xFF padding of at most one 128-byte page; whole pages; 16-byte blocks
        "padded": lambda old, bin_string, result: result["data"]
        == old.bin_string + ff(len(result["data"]) - len(old.bin_string)),
        "page-multiple": lambda old, bin_string, result: len(result["data"]) % 128 == 0
        and 0 <= len(result["data"]) - len(old.bin_string)
        and len(result["data"]) - len(old.bin_string) <= 128,
        "blocks": lambda old, bin_string, result: result["blocks"] * 16 == len(result["data"]),
        # the CRC is taken over the padded data that is actually served
        "crc-over-served-data": lambda old, bin_string, result: result["crc"] == crc_of(result["data"]),
    }


def crc_of(data):
    return OTA.compute_crc(data)


@contract("mysensors.ota:fw_int_to_hex", props=["C09"])
class IntToHex:
    configs = [{"n": 3}, {"n": 4}]

    def setup(h):
        return [h.sym("int", f"w{i}") for i in range(h.config["n"])], {}

    raises = {struct.error: lambda old, *args: not all_words(args)}
    params = ["w0", "w1", "w2", "w3"]

    ensures = {
        "le16": lambda old, *a: all_words(a[:-1]) and a[-1] == le16hex(*a[:-1]),
    }


def all_words(ws):
    return all([0 <= w and w <= 65535 for w in ws])


@contract("mysensors.ota:fw_hex_to_int", props=["C09"])
class HexToInt:
    configs = [{"n": 3}, {"n": 5}]

    def setup(h):
        return [h.sym("str", "hex_str"), h.config["n"]], {}

    raises = {
        binascii.Error: lambda old, hex_str, words: not hex_words_ok(hex_str, words),
        struct.error: lambda old, hex_str, words: not hex_words_ok(hex_str, words),
    }

    ensures = {
        "words": lambda old, hex_str, words, result: hex_words_ok(hex_str, words)
        and len(result) == words
        and result[0] == hex_word(hex_str, 0)
        and result[1] == hex_word(hex_str, 1)
        and result[2] == hex_word(hex_str, 2),
    }


def _hex_roundtrip(a, b, c):
    return OTA.fw_hex_to_int(OTA.fw_int_to_hex(a, b, c), 3)


@contract("mysensors.ota:fw_hex_to_int", props=["C09"], name="L.header-roundtrip")
class LemmaHeaderRoundTrip:
    lemma = True
    params = ["a", "b", "c"]
    body = _hex_roundtrip

    def setup(h):
        return [h.sym("int", "a"), h.sym("int", "b"), h.sym("int", "c")], {}

    def requires(a, b, c):
        return all_words([a, b, c])

    raises = {}
    ensures = {"echo": lambda old, a, b, c, result: result == (a, b, c)}


def _block_step(data, i):
    """the first i+1 blocks = the first i blocks followed by block i"""
    return (data[0 : 16 * (i + 1)], data[0 : 16 * i] + data[16 * i : 16 * i + 16], data[16 * i : 16 * i + 16])


@contract("mysensors.ota:prepare_fw", props=["C09"], name="L.blocks-concatenate")
class LemmaBlocksConcatenate:
    """Induction step of: the blocks 0..B-1 concatenate to `data` (ghost loop over i)."""

    lemma = True
    params = ["data", "i", "blocks"]
    body = lambda data, i, blocks: _block_step(data, i)

    def setup(h):
        return [_bytes(h, "data"), h.sym("int", "i"), h.sym("int", "blocks")], {}

    def requires(data, i, blocks):
        return len(data) == 16 * blocks and 0 <= i and i < blocks

    raises = {}
    ensures = {
        "step": lambda old, data, i, blocks, result: result[0] == result[1],
        "block-size": lambda old, data, i, blocks, result: len(result[2]) == 16,
        "last-step-is-everything": lambda old, data, i, blocks, result: i + 1 != blocks or result[0] == data,
    }


def _setup_respond(h):
    gw = make_gateway(h, h.config.get("version", "2.0"))
    summaries.install(h.it)
    ota = gw.fields["tasks"].fields["ota"]
    m = Obj(Message, name="msg")
    m.fields.update(
        node_id=h.sym("int", "node_id"), child_id=255, type=4, ack=h.sym("int", "ack"),
        sub_type=h.config["sub"], payload=h.sym("str", "payload"), gateway=gw,
    )
    return [ota, m], {}, {"gw": gw}


@contract("mysensors.ota:OTAFirmware.respond_fw", props=["C09", "C10"])
class RespondFw:
    configs = [{"sub": 2}]
    setup = _setup_respond

    def requires(self, msg):
        return inv(env("gw")) and wire.carriable(msg.payload) and (msg.ack == 0 or msg.ack == 1) and 0 <= msg.node_id and msg.node_id <= 255

    raises = {}

    ensures = {
        # each block response echoes the firmware type, version and block index it answers, followed by the 16 bytes of that block
        "echo-and-block": lambda old, self, msg, result: result is None
        or (
            hex_words_ok(old.msg.payload, 3)
            and result.payload
            == le16hex(hex_word(old.msg.payload, 0), hex_word(old.msg.payload, 1), hex_word(old.msg.payload, 2))
            + hex_of(
                old.self.firmware[hex_word(old.msg.payload, 0), hex_word(old.msg.payload, 1)]["data"][
                    hex_word(old.msg.payload, 2) * 16 : hex_word(old.msg.payload, 2) * 16 + 16
                ]
            )
            and result.node_id == old.msg.node_id
            and result.sub_type == 3
            and result.type == 4
        ),
        # serving never alters the stored images: any order, any repetition, any node give the same bytes
        "firmware-untouched": lambda old, self, msg, result: same_fw(self, old.self),
    }


def same_fw(ota, old_ota):
    return same_dict(ota.firmware, old_ota.firmware)
