#!/usr/bin/env python3
"""Regenerate MANIFEST.json from the table below (kept valid at all times)."""
import json, os

HERE = os.path.dirname(os.path.abspath(__file__))
BASE_CMD = "cd /repo && /venv/bin/python -m pytest -ra -q -p no:cacheprovider --timeout=900 --continue-on-collection-errors"

TECH = "contract-based deductive verification: VCs generated from the real AST by pyvc (sidecar contracts, loop invariants, ghost state), discharged by z3 / cvc5"

_GW_NOTE = "Trusted: pyvc's encoding of the Python subset; z3/cvc5; laws about str/int/split/join/rstrip/hexlify/struct instantiated by the generator (audited natively); my semantics of voluptuous and the AwesomeVersion abstraction; declared field kinds of Sensor/ChildSensor; the spec functions in /verif/spec. Message.validate / Message.copy / get_const / add_job are used through their contracts at call sites (validate's contract is proved by C03, copy's by C02)."

CLAIMED = {
    "C01": ("Gateway.logic (real source, all five versions, every command class) is executed symbolically for an arbitrary inbound string and an arbitrary gateway state satisfying the invariant Inv: no exception may escape on any path, a line that is not accepted leaves state/sent/events/need_save untouched, and every conjunct of Inv is re-established (inductive), so the per-step result holds after every history; set_child_value and make_update are under contract for the controller-call clause.", _GW_NOTE, TECH),
    "C02": ("encode/decode/copy/modify under contract for all integers and all carriable payloads; round-trip lemmas L1 (decode after encode) and L2 (canonical re-encoding, idempotent) discharged from the split/join/rstrip/int laws; copy for all 64 subsets of replaced fields.", "Trusted: the text laws (T-str); what is verified is the repository's glue: field order, payload position, integer conversion, terminator, copy's field handling.", TECH),
    "C04": ("Entry contract on Gateway.logic: after any accepted message the node/child/value tree equals the protocol meaning of that message (nodes appear only via presentation/id assignment, first child presentation wins, values/attributes hold the last report with fall-backs, all other nodes untouched), the event callback fires at most once, with the message's fields and the state at return, and exactly once whenever the persisted view changed; proved for every state with Inv, hence for every history.", _GW_NOTE, TECH),
    "C05": ("Entry contract on Gateway.logic and set_child_value: per message kind the returned line / the queued line / the jobs handed to the transport are exactly the prescribed ones (req, config, time, id request, gateway ready, unknown node/child, silence otherwise) and every returned line is canonical, decodes to a message valid for the version and is addressed to the inbound node or broadcast.", _GW_NOTE + " Clock: time.localtime is an uninterpreted input.", TECH),
    "C06": ("_get_next_id / add_sensor / logic(id request): every id carried by an id response lies in 1..254, was unknown before and is reserved at once; no response when none is available; known nodes never disappear; the reservation is marked for saving; save_sensors' contract (a failed save leaves the state marked unsaved) for the restart clause, which otherwise rests on C11/C14.", _GW_NOTE + " Restart step: assumed json/pickle round trip.", TECH),
    "C07": ("Entry contracts on logic (2.0-2.2) and set_child_value: nothing returned for sending is addressed to a sleeping node (stream excepted), jobs reach the transport only in a wake-up burst or for a node that is awake, withheld lines are appended to the node's queue and queues only empty at that node's wake-up; awake nodes never get anything queued; I-queue (what is withheld for a node is addressed to it) and jobs-addressed: everything handed to the transport while a line is processed is a command for the sender of that line.", _GW_NOTE + " The pump-level 'burst directly follows' is the ordering obligation of C19 (known finding F8).", TECH),
    "C08": ("Loop invariants of the wake-up flush (decomposition form sent0++queue0 = sent++queue; one set command per due (child, value type) counted in ghost state), desired values kept until the node reports exactly that value type, value requests answered with the pending value (C05), and set_child_value refuses undeliverable values at call time (I-desired preserved); what is withheld between two wake-ups joins the node's queue at its end (the insertion half of 'oldest first').", _GW_NOTE, TECH),
    "C09": ("prepare_fw (padding loop invariant, blocks, CRC over the served data), fw_int_to_hex / fw_hex_to_int (little-endian 16-bit header, round-trip lemma), respond_fw (echo of type/version/index + the 16 bytes of the block, firmware untouched) and the induction step 'blocks concatenate to data' are discharged for images of symbolic length and content; load_fw is under contract around the Intel-HEX library (one fresh decoder, the named file once, the whole decoded image or None).", "Trusted: crcmod 'modbus' = CRC-16/MODBUS (T-crc, bounded audit), IntelHex loader (T-ihex, bounded audit only: the Intel-HEX clause is a bounded stand-in, not proved), struct/binascii laws.", TECH),
    "C10": ("Entry contract on logic for stream/set/presentation plus make_update: malformed or foreign requests change nothing, config is answered in requested/offered and withheld while fetching, block requests move the node to fetching, replies are exactly the packed header + block, sets are answered with reboot from the update call until the next node presentation, update calls restart the session of exactly the named known nodes.", _GW_NOTE, TECH),
    "C11": ("The repository's JSON hooks (MySensorsJSONEncoder.default, MySensorsJSONDecoder.dict_to_object incl. digit-key restoration) and pickle state hooks (Sensor.__getstate__/__setstate__, ChildSensor.__setstate__) are under contract: encode-then-decode restores every persisted attribute exactly for symbolic attribute values, emits exactly the persisted keys, and resets the transient fields; both formats restore the same attributes.", "Trusted (heavy): json / pickle do the recursion - they call default for every Sensor/ChildSensor, object_hook bottom-up on every dict, stringify keys, and round-trip dict/list/str/int/None (T-json, T-pickle). Digit-key restoration is shape-bounded (0..3 entries).", TECH),
    "C17": ("parse_message_to_mqtt / parse_mqtt_to_message under contract (topic = /n/c/t/a/s, qos = ack; accepted iff the topic is the inbound prefix followed by its last five levels), the publish-then-receive round-trip lemma for every prefix (also prefixes that look like levels) from the split/join laws, init_topics via the comprehension law (set/req topics of every restored child, stream topic of its node, the two wildcards), and MQTTTransport.send / handle_subscription: a raising callback never escapes.", "Trusted: text laws incl. split(x ++ '/' ++ y) = split(x) ++ split(y) (T-str); topics handed to handle_subscription have the gateway's own shape.", TECH),
    "C12": ("Crash-Hoare obligations on the real save_sensors/_save_json/_save_pickle over a ghost file system: at every file-operation boundary and at every injected single fault, every state a crash can leave (with and without loss of unsynced data, any prefix of pending directory operations) recovers - by the contract of safe_load_sensors - to the complete old or the complete new state; a failed save keeps need_save; the next save succeeds. All five prior on-disk configurations, both formats.", "Trusted: the ghost file system (atomic rename, ordered metadata, durability only by fsync) T-fs; json/pickle dump as 'zero or more writes then complete'.", TECH),
    "C13": ("safe_load_sensors under contract over arbitrary file content: for main/backup absent/good/damaged (damaged = the decoder raises any class of its assumed set) nothing escapes and exactly one complete saved state or nothing is merged.", "Trusted: the exception classes json.load / pickle.load raise on damaged input (T-json, T-pickle; audited on all truncations natively, bounded).", TECH),
    "C14": ("I-save on logic (persisted view changed => need_save, never cleared by message processing) for all versions/kinds, save_sensors' contract, and SyncTasks.stop / AsyncTasks.stop: disconnect first, cancel the timer, then exactly one save; the persisted state is the new one; save_sensors under the rely 'the pump handles a state-changing report between any two file operations of the save' guarantees that the flag is clear at return only if the file holds the state held then (finding F21, fixed).", _GW_NOTE + " T-fs, T-json, T-pickle for what a load returns.", TECH),
    "C15": ("schedule_save (threaded) re-arms its timer on every exit and save_on_schedule (asyncio, loop cut at its invariant) ends only by cancellation, for a save that may fail with OSError or RuntimeError at any point; save_sensors' exceptional postcondition keeps need_save and a recoverable file (C12); a report racing with the save is never marked saved (save_sensors.concurrent-report; finding F21, fixed), so the next attempt persists the then-current state.", "Trusted: threading.Timer / asyncio loop models (spawned callbacks run later, once).", TECH),
    "C16": ("Rely/guarantee obligations on Transport.send / SyncTransport.send: every read of transport.protocol and protocol.transport is a fresh read under the rely (connection lost, user disconnect, new connection at any point, any number of times): nothing escapes, at most one write of the whole command; one pump iteration pops the head, runs it once and sends exactly its reply (FIFO) while producers append.", "Trusted: attribute load/store and deque operations atomic under the GIL (T-dict); a write on a closed connection completes or raises OSError (T-serial).", TECH),
    "C18": ("Keyword flow along the real MRO of all six gateway classes for every subset of the documented options (accepted, and each option honoured) and get_const / safe_is_version / is_sensor against ver.floor for symbolic numeric versions major.minor[.patch].", "Trusted: AwesomeVersion abstraction (numeric, section by section; canonical decimal spelling) T-aw, audited on a grid.", TECH),
    "C19": ("Packetizer.data_received (dependency code under contract) loop invariant: received = packets each followed by the terminator ++ buffer, no terminator left; uniqueness lemma of that decomposition (chunking independence); one logic job per packet after framing; AsyncTasks.add_job runs and sends at once; one SyncTasks pump iteration is FIFO/exactly-once; TCPTransport.run (threaded TCP reader loop): every received chunk handed to data_received exactly once, connection_lost exactly once with the ending error.", "Trusted: T-serial (chunks delivered in order), z3 sequence theory for bytes. The cross-line emission order of the threaded flavour differs from asyncio (known finding F8).", TECH),
    "C20": ("Per-call exactness of _connection_made/_connection_lost and behavioural subtyping of the three connection_lost overrides (callback exactly once with the cause, reconnect iff the loss was not requested), the reconnect callbacks the transports install (every loss starts exactly one reconnect), the four connect loops per iteration (a failed attempt is followed by exactly one sleep of reconnect_timeout; a new TCP link starts with both watchdog timers stamped; a threaded loop whose user stops the gateway during the retry wait returns without a further attempt, reader thread or callback), the threaded TCP reader loop (connection_lost exactly once with the cause, watchdog consulted every iteration), stop() disconnects first, and check_connection/_handle_i_version exact in linear real arithmetic over an uninterpreted non-decreasing clock.", "Trusted: T-serial, T-time. The positive watchdog claim is proved as an inductive invariant under a stated slack (answer latency + loop period <= reconnect_timeout); without slack it fails (known finding F20w). Not decided: liveness, thread/asyncio scheduling, the bound on re-dialling.", TECH),
    "C03": (
        "For every version and every header cell (command -1..5 x sub-type -1..max+2, enumerated completely) the real body of Message.validate - including the live voluptuous validator objects of the version tables and the repository's validator functions - is symbolically executed with node id, child id, ack and payload symbolic, and both directions 'accepted => api.valid' and 'rejected => not api.valid' are discharged; api.valid is an independent table-driven spec written from the property statement. The finite table conditions are decided by exhaustive evaluation of the live tables.",
        "Trusted: my semantics of voluptuous All/Any/Coerce/Range/In/literals/Schema(Object) (T-vol), the AwesomeVersion abstraction (T-aw), int()/float()/unhexlify as uninterpreted functions shared by code and spec (T-str, T-hex), the spec tables (T-spec).",
        TECH + "; finite table conditions by exhaustive evaluation",
    ),
}

NOT_YET = {}

def main():
    props = [json.loads(l) for l in open(os.path.join(HERE, "properties.jsonl"))]
    na_file = os.path.join(HERE, "not_applicable.json")
    na = json.load(open(na_file)) if os.path.exists(na_file) else {}
    checks = []
    not_app = []
    for p in props:
        pid = p["id"]
        if pid in CLAIMED and pid not in na:
            text, note, tech = CLAIMED[pid]
            checks.append({
                "property_id": pid,
                "quick_cmd": f"./check {pid} --tier quick",
                "thorough_cmd": f"./check {pid} --tier thorough",
                "evidence_file": f"/verif/evidence/{pid}.json",
                "replay_cmd_template": "./check replay {path}",
                "engine": "pyvc",
                "level_claimed": {"category": "proof", "text": text, "design_ref": f"DESIGN.md section 9, {pid}"},
                "level_note": note,
                "technique": tech,
            })
        else:
            not_app.append({"property_id": pid, "reason": na.get(pid, "contracts for this property are not built yet in this round; no check is claimed")})
    man = {
        "version": 1,
        "setup_cmd": "./setup.sh",
        "hooks": {
            "guard": "PYMYSENSORS_VERIF",
            "enable": "no hooks: contracts are sidecars in /verif/contracts and the real source under /repo (or $VERIF_REPO) is re-read on every run",
            "baseline_off_cmd": BASE_CMD,
            "source_commits": [],
            "add_only": True,
        },
        "engines": [{
            "name": "pyvc",
            "path": "/verif/pyvc",
            "serves_properties": sorted(c["property_id"] for c in checks),
            "kind_free_text": "self-built verification-condition generator for a Python subset: path-wise symbolic execution of the real AST against sidecar contracts, loop invariants, ghost state; z3 5.1 first, cvc5 on unknowns",
        }],
        "checks": checks,
        "not_applicable": not_app,
        "notes": "Exit codes of ./check: 0 all obligations discharged, 1 violation (VIOLATION line + replay file), 2 undecided (solver unknown / unsupported construct), 3 engine error. Known findings: /verif/known_findings.jsonl.",
    }
    json.dump(man, open(os.path.join(HERE, "MANIFEST.json"), "w"), indent=1)

if __name__ == "__main__":
    main()
