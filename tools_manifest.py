#!/usr/bin/env python3
"""Regenerate MANIFEST.json from the table below (kept valid at all times)."""
import json, os

HERE = os.path.dirname(os.path.abspath(__file__))
BASE_CMD = "cd /repo && /venv/bin/python -m pytest -ra -q -p no:cacheprovider --timeout=900 --continue-on-collection-errors"

CLAIMED = {
    # id: (level text, note, technique)
    "C06": (
        "Every obligation generated from the real source of _get_next_id / add_sensor / handle_id_request (freshness, range, no-overwrite, frame, invariant preservation) is discharged by z3/cvc5 for all gateway states satisfying the invariant; no bound on the number of nodes or on the history.",
        "Trusted: the pyvc engine's encoding of the Python subset, z3/cvc5, dict laws, declared field kinds; the restart clause rests on assumed json/pickle round-trip contracts.",
        "contract-based deductive verification: VCs from the real AST (pyvc) discharged by z3/cvc5",
    ),
}

CLAIMED["C03"] = (
    "For every version and every header cell (command -1..5 x sub-type -1..max+2, enumerated completely) the real body of Message.validate - including the live voluptuous validator objects of the version tables and the repository's validator functions - is symbolically executed with node id, child id, ack and payload symbolic, and both directions 'accepted => api.valid' and 'rejected => not api.valid' are discharged; api.valid is an independent table-driven spec written from the property statement. The finite table conditions are decided by exhaustive evaluation of the live tables.",
    "Trusted: my semantics of voluptuous All/Any/Coerce/Range/In/literals/Schema(Object) (T-vol), the AwesomeVersion abstraction (T-aw), int()/float()/unhexlify as uninterpreted functions shared by code and spec (T-str, T-hex), the spec tables (T-spec).",
    "contract-based deductive verification: VCs from the real AST (pyvc) discharged by z3/cvc5; finite table conditions by exhaustive evaluation",
)

NOT_YET = {}

def main():
    props = [json.loads(l) for l in open(os.path.join(HERE, "properties.jsonl"))]
    na_file = os.path.join(HERE, "not_applicable.json")
    na = json.load(open(na_file)) if os.path.exists(na_file) else {}
    checks = []
    not_app = []
    for p in props:
        pid = p["id"]
        if pid in CLAIMED and pid not in na:
            text, note, tech = CLAIMED[pid]
            checks.append({
                "property_id": pid,
                "quick_cmd": f"./check {pid} --tier quick",
                "thorough_cmd": f"./check {pid} --tier thorough",
                "evidence_file": f"/verif/evidence/{pid}.json",
                "replay_cmd_template": "./check replay {path}",
                "engine": "pyvc",
                "level_claimed": {"category": "proof", "text": text, "design_ref": f"DESIGN.md section 9, {pid}"},
                "level_note": note,
                "technique": tech,
            })
        else:
            not_app.append({"property_id": pid, "reason": na.get(pid, "contracts for this property are not built yet in this round; no check is claimed")})
    man = {
        "version": 1,
        "setup_cmd": "./setup.sh",
        "hooks": {
            "guard": "PYMYSENSORS_VERIF",
            "enable": "no hooks: contracts are sidecars in /verif/contracts and the real source under /repo (or $VERIF_REPO) is re-read on every run",
            "baseline_off_cmd": BASE_CMD,
            "source_commits": [],
            "add_only": True,
        },
        "engines": [{
            "name": "pyvc",
            "path": "/verif/pyvc",
            "serves_properties": sorted(c["property_id"] for c in checks),
            "kind_free_text": "self-built verification-condition generator for a Python subset: path-wise symbolic execution of the real AST against sidecar contracts, loop invariants, ghost state; z3 5.1 first, cvc5 on unknowns",
        }],
        "checks": checks,
        "not_applicable": not_app,
        "notes": "Exit codes of ./check: 0 all obligations discharged, 1 violation (VIOLATION line + replay file), 2 undecided (solver unknown / unsupported construct), 3 engine error. Known findings: /verif/known_findings.jsonl.",
    }
    json.dump(man, open(os.path.join(HERE, "MANIFEST.json"), "w"), indent=1)

if __name__ == "__main__":
    main()
