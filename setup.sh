#!/bin/sh
# Build the overlay venv offline (idempotent). Python 3.12 + z3-solver + cvc5 + jsonschema,
# with /venv's site-packages (the repository's own dependencies) added through a .pth file.
set -e
HERE="$(cd "$(dirname "$0")" && pwd)"
VENV="$HERE/.venv"
PY=/root/.pyenv/versions/3.12.1/bin/python
[ -x "$PY" ] || PY="$(/venv/bin/python -c 'import sys;print(sys.base_prefix)')/bin/python3"
if [ ! -x "$VENV/bin/python" ] || ! "$VENV/bin/python" -c "import z3, cvc5, jsonschema, voluptuous, awesomeversion" 2>/dev/null; then
  rm -rf "$VENV"
  "$PY" -m venv "$VENV"
  PIP_NO_INDEX=1 "$VENV/bin/pip" install -q --no-index --find-links /opt/veriftools/wheels z3-solver cvc5 jsonschema hypothesis >/dev/null
  SP="$("$VENV/bin/python" -c 'import site;print(site.getsitepackages()[0])')"
  echo "import site; site.addsitedir('/venv/lib/python3.12/site-packages')" > "$SP/zz_repo_deps.pth"
fi
"$VENV/bin/python" -c "import z3, cvc5, jsonschema, voluptuous, awesomeversion, serial; print('venv ok', z3.get_version_string())"
