"""pyvc core: symbolic values, path context, decision traces, obligations.

One *path* of the function under verification is one execution of the AST interpreter
(interp.py) under a fixed list of branch decisions.  Paths are enumerated by re-execution:
whenever the interpreter meets a branch whose condition is symbolic it asks the context,
which replays the recorded decision or - at the frontier - asks the solver which outcomes
are feasible, takes the first and schedules the others.  Nothing is ever copied or merged.
"""
from __future__ import annotations

import itertools
import z3

# --------------------------------------------------------------------------- sorts
INT = z3.IntSort()
BOOL = z3.BoolSort()
# Text is an *uninterpreted* sort: every operation on it is an uninterpreted function constrained by
# laws instantiated by the generator (laws.py).  z3's native string theory made even feasibility
# checks time out (measured: 3 s per check, all `unknown`); with EUF + LIA they take milliseconds.
STR = z3.DeclareSort("PStr")
BYTE = z3.BitVecSort(8)
BYTES = z3.SeqSort(BYTE)
QSTR = z3.SeqSort(STR)  # queues / logs of strings held in ghost state or deque slots
REAL = z3.RealSort()

s_len = z3.Function("s_len", STR, INT)
s_code = z3.Function("s_code", STR, INT)  # injective on literals: makes distinct literals distinct

LITERAL_FACT_HOOKS = []
_LITS = {}
_LIT_BY_ID = {}
_LIT_ORDER = []


def _safe_name(s):
    """SMT-LIB symbol-safe spelling of a literal (no quote, bar or backslash characters)."""
    out = []
    for ch in s:
        if ch.isalnum() or ch in "_-.+/,:;= ":
            out.append(ch)
        else:
            out.append(f"<{ord(ch):x}>")
    return "[" + "".join(out) + "]"


def strlit(s: str):
    t = _LITS.get(s)
    if t is None:
        t = z3.Const("s:" + _safe_name(s), STR)
        _LITS[s] = t
        _LIT_BY_ID[t.get_id()] = s
        _LIT_ORDER.append(s)
    return t


def lit_value(t):
    """Python str if the term is a registered literal constant, else None."""
    return _LIT_BY_ID.get(t.get_id())

_pv = z3.Datatype("PyVal")
_pv.declare("none")
_pv.declare("I", ("iv", INT))
_pv.declare("S", ("sv", STR))
_pv.declare("B", ("bv", BOOL))
PYVAL = _pv.create()

KIND_SORT = {
    "int": INT,
    "bool": BOOL,
    "str": STR,
    "bytes": BYTES,
    "qstr": QSTR,
    "any": PYVAL,
    "real": REAL,
}


class Unsupported(Exception):
    """The engine cannot model this construct: the result is *undecided*, never a pass."""


class PathDead(Exception):
    """An assumption made the current path infeasible."""


class EngineError(Exception):
    """Internal inconsistency (exit 3)."""


class SV:
    """A symbolic scalar: a z3 term plus the Python kind it stands for."""

    __slots__ = ("kind", "term")

    def __init__(self, kind, term):
        assert kind in KIND_SORT, kind
        self.kind = kind
        self.term = term

    def __repr__(self):
        return f"SV<{self.kind}:{self.term}>"


class ExcVal:
    """A Python exception value inside the interpreter."""

    def __init__(self, cls, args=(), cause=None, site=None):
        self.cls = cls
        self.args = tuple(args)
        self.cause = cause
        self.site = site

    def __repr__(self):
        return f"ExcVal<{self.cls.__name__} @ {self.site}>"


class PyRaise(Exception):
    def __init__(self, exc: ExcVal):
        super().__init__(repr(exc))
        self.exc = exc


def is_sym(v):
    return isinstance(v, SV)


def lift(v):
    """Concrete Python scalar -> z3 term of the matching sort (with its kind)."""
    import enum

    if isinstance(v, SV):
        return v.kind, v.term
    if type(v).__name__ == "LazyStr":
        return lift(v.force())
    if isinstance(v, bool):
        return "bool", z3.BoolVal(v)
    if isinstance(v, enum.IntEnum):
        return "int", z3.IntVal(int(v))
    if isinstance(v, int):
        return "int", z3.IntVal(v)
    if isinstance(v, str):
        return "str", strlit(v)
    if isinstance(v, (bytes, bytearray)):
        if len(v) == 0:
            return "bytes", z3.Empty(BYTES)
        t = None
        for b in v:
            u = z3.Unit(z3.BitVecVal(b, 8))
            t = u if t is None else z3.Concat(t, u)
        return "bytes", t
    if isinstance(v, float):
        return "real", z3.RealVal(repr(v))
    raise Unsupported(f"cannot lift {type(v).__name__} to a term")


def to_any(v):
    """Value -> PYVAL term."""
    if type(v).__name__ == "LazyStr":
        v = v.force()
    if v is None:
        return PYVAL.none
    kind, t = lift(v)
    if kind == "any":
        return t
    if kind == "int":
        return PYVAL.I(t)
    if kind == "str":
        return PYVAL.S(t)
    if kind == "bool":
        return PYVAL.B(t)
    raise Unsupported(f"cannot store kind {kind} in a polymorphic slot")


def to_kind(v, kind):
    """Coerce a value to the z3 term of a declared slot kind."""
    if kind == "any":
        return to_any(v)
    if type(v).__name__ == "SeqVal" and kind in ("bytes", "qstr"):
        return v.term
    if v is None:
        raise Unsupported(f"None stored in a slot of kind {kind}")
    k, t = lift(v)
    if k == kind:
        return t
    if k == "any":
        if kind == "int":
            return PYVAL.iv(t)
        if kind == "str":
            return PYVAL.sv(t)
        if kind == "bool":
            return PYVAL.bv(t)
    if k == "bool" and kind == "int":
        return z3.If(t, 1, 0)
    raise Unsupported(f"kind mismatch: value of kind {k} in slot of kind {kind}")


def simplify_val(kind, term):
    """Return a concrete Python value when the term is a literal, else an SV."""
    t = z3.simplify(term)
    if kind == "int" and z3.is_int_value(t):
        return t.as_long()
    if kind == "bool":
        if z3.is_true(t):
            return True
        if z3.is_false(t):
            return False
    if kind == "str":
        lv = lit_value(t)
        if lv is not None:
            return lv
    if kind == "any":
        if t.decl().eq(PYVAL.none):
            return None
        if z3.is_app(t) and t.num_args() == 1:
            d = t.decl()
            if d.eq(PYVAL.I):
                return simplify_val("int", t.arg(0))
            if d.eq(PYVAL.S):
                return simplify_val("str", t.arg(0))
            if d.eq(PYVAL.B):
                return simplify_val("bool", t.arg(0))
    return SV(kind, t)


# --------------------------------------------------------------------------- obligations
class Obligation:
    __slots__ = ("name", "kind", "hyps", "goal", "path", "site", "meta")

    def __init__(self, name, kind, hyps, goal, path, site=None, meta=None):
        self.name = name
        self.kind = kind
        self.hyps = list(hyps)
        self.goal = goal
        self.path = list(path)
        self.site = site
        self.meta = meta or {}

    def smt2(self):
        s = z3.Solver()
        for h in self.hyps:
            s.add(h)
        s.add(z3.Not(self.goal))
        return s.to_smt2()


_fresh_counter = itertools.count()
import os as _os

FRESH_SOLVER_FEASIBILITY = _os.environ.get("PYVC_FRESH_FEAS", "1") == "1"


class Ctx:
    """State of one path."""

    def __init__(self, decisions=(), budget_ms=3000, check_feasibility=True):
        self.pc = []
        self.decisions = list(decisions)
        self.di = 0
        self.alternatives = []  # decision lists scheduled from the frontier of this path
        self.trace = []  # human readable branch trace
        self.obligations = []
        self.universals = []  # (roles tuple, fn(*terms) -> z3 Bool)
        self.index_terms = {}  # role -> list of z3 terms
        self._inst_done = set()
        self._dirty = False
        self.solver = z3.Solver()
        self.solver.set("timeout", budget_ms)
        self.check_feasibility = check_feasibility
        self.ghost = {}
        self.names = {}
        self.notes = []
        self.unknown_branches = 0
        self.mode = "exec"  # exec | assume | assert (polarity for forall in contracts)
        self.depth = 0
        self.concrete = False  # concrete mode: no symbolic values expected
        self.suppress_index = False

    # ---- fresh symbols
    def fresh_term(self, sort, hint="v"):
        n = self.names.get(hint, 0)
        self.names[hint] = n + 1
        return z3.Const(f"{hint}!{n}", sort)

    def fresh(self, kind, hint="v"):
        return SV(kind, self.fresh_term(KIND_SORT[kind], hint))

    # ---- facts
    def add_fact(self, f):
        if isinstance(f, bool):
            if not f:
                raise PathDead()
            return
        f = z3.simplify(f)
        if z3.is_true(f):
            return
        if z3.is_false(f):
            raise PathDead()
        self.pc.append(f)
        self.solver.add(f)

    def assume(self, f, why=None):
        self.add_fact(f)

    # ---- universals (array property fragment, instantiated by the generator)
    def add_index_term(self, role, term):
        if self.suppress_index:
            return
        lst = self.index_terms.setdefault(role, [])
        for t in lst:
            if t.eq(term):
                return
        lst.append(term)
        self._dirty = True

    def add_universal(self, roles, fn, name="forall"):
        self.universals.append((tuple(roles), fn, name))
        self._dirty = True

    def literal_facts(self):
        n = getattr(self, "_lits_done", 0)
        while n < len(_LIT_ORDER):
            sv = _LIT_ORDER[n]
            t = _LITS[sv]
            facts = [s_code(t) == n, s_len(t) == len(sv)]
            for hook in LITERAL_FACT_HOOKS:
                facts.extend(hook(t, sv))
            for f in facts:
                self.pc.append(f)
            self.solver.add(*facts)
            n += 1
        self._lits_done = n

    def instantiate(self):
        """Instantiate every registered universal at every recorded index term."""
        self.literal_facts()
        guard = 0
        while self._dirty:
            self._dirty = False
            guard += 1
            if guard > 6:
                break
            for ui, (roles, fn, _name) in enumerate(list(self.universals)):
                pools = [list(self.index_terms.get(r, [])) for r in roles]
                if any(not p for p in pools):
                    continue
                for combo in itertools.product(*pools):
                    key = (ui,) + tuple(t.get_id() for t in combo)
                    if key in self._inst_done:
                        continue
                    self._inst_done.add(key)
                    f = fn(*combo)
                    if f is not None:
                        self.add_fact(f)

    # ---- branching
    def _feasible(self, cond):
        if not self.check_feasibility:
            return True
        if FRESH_SOLVER_FEASIBILITY:
            s = z3.Solver()
            s.set("timeout", 3000)
            s.add(*self.pc)
            s.add(cond)
            r = s.check()
        else:
            r = self.solver.check(cond)
        if r == z3.unknown:
            self.unknown_branches += 1
            return True
        return r == z3.sat

    def choose(self, conds, labels=None, site=None):
        """Pick one of several mutually exclusive, jointly exhaustive conditions."""
        conds = [c if not isinstance(c, bool) else z3.BoolVal(c) for c in conds]
        n = len(conds)
        self.instantiate()
        if self.di < len(self.decisions):
            k = self.decisions[self.di]
            self.di += 1
        else:
            feas = [i for i in range(n) if not z3.is_false(z3.simplify(conds[i])) and self._feasible(conds[i])]
            if not feas:
                raise PathDead()
            k = feas[0]
            prefix = self.decisions[: self.di]
            for alt in feas[1:]:
                self.alternatives.append(prefix + [alt])
            self.decisions.append(k)
            self.di += 1
        lab = labels[k] if labels else str(k)
        self.trace.append(f"{site or ''}:{lab}")
        self.add_fact(conds[k])
        return k

    def branch(self, cond, site=None):
        """Symbolic if: returns the Python truth value chosen on this path."""
        if isinstance(cond, bool):
            return cond
        c = z3.simplify(cond)
        if z3.is_true(c):
            return True
        if z3.is_false(c):
            return False
        k = self.choose([c, z3.Not(c)], labels=["T", "F"], site=site)
        return k == 0

    # ---- scopes: index terms / facts produced while evaluating one contract clause are local to it
    def push_scope(self):
        self._scopes = getattr(self, "_scopes", [])
        self._scopes.append((len(self.pc), {r: len(v) for r, v in self.index_terms.items()}, self._dirty))
        self._inst_done_stack = getattr(self, "_inst_done_stack", [])
        self._inst_done_stack.append(frozenset(self._inst_done))
        self._lits_stack = getattr(self, "_lits_stack", [])
        self._lits_stack.append(getattr(self, "_lits_done", 0))
        self._wit_stack = getattr(self, "_wit_stack", [])
        self._wit_stack.append(set(getattr(self, "_ne_witness", {})))
        self._qatoms_stack = getattr(self, "_qatoms_stack", [])
        self._qatoms_stack.append(len(getattr(self, "_q_atoms", [])))
        self.solver.push()

    def pop_scope(self):
        npc, lens, dirty = self._scopes.pop()
        del self.pc[npc:]
        for r in list(self.index_terms):
            keep = lens.get(r, 0)
            del self.index_terms[r][keep:]
        self.solver.pop()
        self._lits_done = self._lits_stack.pop()
        nq = self._qatoms_stack.pop()
        if getattr(self, "_q_atoms", None) is not None:
            del self._q_atoms[nq:]
        keep_w = self._wit_stack.pop()
        for kw in [kw for kw in getattr(self, "_ne_witness", {}) if kw not in keep_w]:
            del self._ne_witness[kw]
        # instances recorded for dropped terms may have been dropped with the facts: forget the memo
        # entries made inside the scope so that they are redone when needed
        self._inst_done = set(self._inst_done_stack.pop()) if getattr(self, "_inst_done_stack", None) else self._inst_done
        self._dirty = True

    # ---- obligations
    def oblige(self, name, goal, kind="post", site=None, meta=None):
        self.instantiate()
        if isinstance(goal, bool):
            goal = z3.BoolVal(goal)
        self.obligations.append(
            Obligation(name, kind, list(self.pc), goal, list(self.trace), site, meta)
        )

    def snapshot_pc(self):
        self.instantiate()
        return list(self.pc)
