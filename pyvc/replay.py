"""Replay files for failed obligations.

The solver's counter-model fixes integers, booleans and map shapes; strings are artefacts of
uninterpreted builtins, so a contract may provide a native `replay(model, rec)` hook that
rebuilds the state on the real classes of /repo, runs the real function and reports whether
the violation reproduces.  Without a reproducing input the VIOLATION line carries the
suffix no-failing-input-found and the file holds the obligation and the solver output.
"""
from __future__ import annotations

import importlib
import json
import os
import re
import traceback

VERIF = os.path.realpath(os.path.join(os.path.dirname(__file__), ".."))


def _safe(name):
    return re.sub(r"[^A-Za-z0-9_.\-\[\]=,]", "_", name)[:150]


def write_replay(prop, tname, rec):
    d = os.path.join(os.environ.get("VERIF_REPLAY_DIR") or os.path.join(VERIF, "replays"), prop)
    os.makedirs(d, exist_ok=True)
    base = _safe(rec["name"])
    i = 0
    path = os.path.join(d, f"{base}.json")
    while os.path.exists(path) and i < 50:
        i += 1
        path = os.path.join(d, f"{base}.{i}.json")
    reproduced, detail = False, "no native replay hook for this obligation"
    hook = find_hook(rec)
    if hook is not None:
        import logging

        logging.disable(logging.CRITICAL)  # the library logs what it rejects; the replay reports on its own
        try:
            reproduced, detail = hook(rec.get("model") or {}, rec)
        except Exception as e:  # pylint: disable=broad-except
            reproduced, detail = False, f"replay hook failed: {type(e).__name__}: {e}\n{traceback.format_exc(limit=4)}"
    if hook is not None:
        logging.disable(logging.NOTSET)
    doc = {
        "property": prop,
        "task": tname,
        "obligation": rec["name"],
        "kind": rec["kind"],
        "site": rec.get("site"),
        "meta": rec.get("meta"),
        "branch_trace": rec.get("full_trace") or rec.get("trace"),
        "goal": rec.get("goal"),
        "solver": {"backend": rec["backend"], "result": rec["result"], "time_s": rec["time"]},
        "model": rec.get("model"),
        "reproduced_on_real_code": reproduced,
        "replay_detail": detail,
        "smt2": rec.get("smt2"),
        "rerun": f"./check replay {os.path.relpath(path, VERIF)}",
    }
    with open(path, "w", encoding="utf-8") as fh:
        json.dump(doc, fh, indent=1, default=str)
    return os.path.relpath(path, VERIF), reproduced


def find_hook(rec):
    try:
        import contracts.replays as R
    except Exception:  # pylint: disable=broad-except
        return None
    return R.find(rec)


def rerun(path):
    with open(os.path.join(VERIF, path) if not os.path.isabs(path) else path, encoding="utf-8") as fh:
        doc = json.load(fh)
    rec = {"name": doc["obligation"], "kind": doc["kind"], "meta": doc.get("meta"), "model": doc.get("model"), "site": doc.get("site"), "full_trace": doc.get("branch_trace")}
    hook = find_hook(rec)
    if hook is None:
        print("no native replay hook; solver output is in the file")
        return 1
    ok, detail = hook(rec.get("model") or {}, rec)
    print(("REPRODUCED: " if ok else "not reproduced: ") + str(detail))
    return 1 if ok else 0
