"""Discharge obligations: z3 first, cvc5 on what z3 leaves open; 16-process pool."""
from __future__ import annotations

import concurrent.futures as cf
import os
import subprocess
import tempfile
import time

import z3

RESULT_UNSAT, RESULT_SAT, RESULT_UNKNOWN = "unsat", "sat", "unknown"


def _solve_one(job):
    name, smt2, timeout_ms, want_model = job[:4]
    crosscheck = job[4] if len(job) > 4 else False
    first_ms = job[5] if len(job) > 5 else None
    t0 = time.time()
    out = {"name": name, "backend": "z3", "result": RESULT_UNKNOWN, "time": 0.0, "model": None, "reason": ""}
    try:
        ctx = z3.Context()
        s = z3.Solver(ctx=ctx)
        s.set("timeout", int(first_ms if first_ms else timeout_ms))
        s.from_string(smt2)
        r = s.check()
        if r == z3.unknown and first_ms and first_ms < timeout_ms:
            # contract asked for a short first slice: let cvc5 try before z3 spends the rest of its budget
            r2, _reason2 = _cvc5(smt2, timeout_ms)
            if r2 == RESULT_UNSAT:
                out.update(result=RESULT_UNSAT, backend="cvc5", time=time.time() - t0)
                return out
            s.set("timeout", int(timeout_ms - first_ms))
            r = s.check()
        out["time"] = time.time() - t0
        if r == z3.unsat:
            out["result"] = RESULT_UNSAT
            if crosscheck:
                # thorough tier: cvc5 re-checks every z3 `unsat` as an independent back end
                r2, reason2 = _cvc5(smt2, timeout_ms)
                out["crosscheck"] = r2
                if r2 == RESULT_SAT:
                    out["result"] = RESULT_UNKNOWN
                    out["reason"] = "solver disagreement: z3 unsat, cvc5 sat"
            return out
        if r == z3.sat:
            out["result"] = RESULT_SAT
            if want_model:
                try:
                    m = s.model()
                    out["model"] = _model_dict(m)
                except Exception as e:  # pylint: disable=broad-except
                    out["model"] = {"<error>": str(e)}
            return out
        out["reason"] = s.reason_unknown()
    except Exception as e:  # pylint: disable=broad-except
        out["reason"] = f"z3 error: {e}"
    # ---- cvc5 on unknown
    t1 = time.time()
    r2, reason2 = _cvc5(smt2, timeout_ms)
    out["time"] = time.time() - t0
    if r2 in (RESULT_UNSAT, RESULT_SAT):
        out["backend"] = "cvc5"
        out["result"] = r2
        out["reason"] = ""
    else:
        out["reason"] += f"; cvc5: {reason2}"
    return out


def _model_dict(m):
    d = {}
    for decl in m.decls():
        try:
            if decl.arity() == 0:
                d[decl.name()] = str(m[decl])
            else:
                d[decl.name() + "/fn"] = str(m[decl])[:2000]
        except Exception:  # pylint: disable=broad-except
            pass
    return d


CVC5 = "/usr/bin/cvc5"


def _cvc5(smt2, timeout_ms):
    if not os.path.exists(CVC5):
        return RESULT_UNKNOWN, "cvc5 not present"
    text = "(set-logic ALL)\n" + smt2
    with tempfile.NamedTemporaryFile("w", suffix=".smt2", delete=False, dir=os.environ.get("TMPDIR", "/tmp")) as fh:
        fh.write(text)
        fn = fh.name
    try:
        p = subprocess.run(
            [CVC5, "--strings-exp", f"--tlimit={int(timeout_ms)}", fn],
            capture_output=True,
            text=True,
            timeout=timeout_ms / 1000.0 + 10,
            check=False,
        )
        first = (p.stdout.strip().splitlines() or [""])[0].strip()
        if first in ("unsat", "sat"):
            return first, ""
        return RESULT_UNKNOWN, (first or p.stderr.strip()[:200])
    except subprocess.TimeoutExpired:
        return RESULT_UNKNOWN, "timeout"
    finally:
        try:
            os.unlink(fn)
        except OSError:
            pass


def solve_all(obligations, timeout_ms=20000, workers=None, want_model=True, crosscheck=False, first_ms=None):
    """obligations: list of core.Obligation. Returns list of result dicts (same order)."""
    workers = workers or min(16, os.cpu_count() or 4)
    jobs = []
    trivially = {}
    for i, ob in enumerate(obligations):
        g = z3.simplify(ob.goal)
        if z3.is_true(g):
            trivially[i] = {"name": ob.name, "backend": "simplifier", "result": RESULT_UNSAT, "time": 0.0, "model": None, "reason": ""}
            continue
        jobs.append((i, (ob.name, ob.smt2(), timeout_ms, want_model, crosscheck, first_ms)))
    results = [None] * len(obligations)
    for i, r in trivially.items():
        results[i] = r
    if jobs:
        if len(jobs) < 4 or workers == 1:
            for i, j in jobs:
                results[i] = _solve_one(j)
        else:
            with cf.ProcessPoolExecutor(max_workers=workers) as ex:
                futs = {ex.submit(_solve_one, j): i for i, j in jobs}
                for f in cf.as_completed(futs):
                    i = futs[f]
                    try:
                        results[i] = f.result()
                    except Exception as e:  # pylint: disable=broad-except
                        results[i] = {"name": obligations[i].name, "backend": "-", "result": RESULT_UNKNOWN, "time": 0.0, "model": None, "reason": f"worker failed: {e}"}
    return results
