from __future__ import annotations

import argparse
import os
import sys


def main(argv=None):
    argv = list(sys.argv[1:] if argv is None else argv)
    if argv and argv[0] == "replay":
        from . import replay, verify

        verify.ensure_repo_on_path()
        return replay.rerun(argv[1])
    ap = argparse.ArgumentParser()
    ap.add_argument("prop")
    ap.add_argument("--tier", default=os.environ.get("VERIF_TIER", "quick"), choices=["quick", "thorough"])
    ap.add_argument("--workers", type=int, default=None)
    a = ap.parse_args(argv)
    here = os.path.realpath(os.path.join(os.path.dirname(__file__), ".."))
    if here not in sys.path:
        sys.path.insert(0, here)
    from . import runner

    code, lines = runner.run_property(a.prop, a.tier, a.workers)
    for ln in lines:
        print(ln)
    return code


if __name__ == "__main__":
    sys.exit(main())
