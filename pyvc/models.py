"""Models of builtins and library functions (the assumed contracts on dependencies).

Everything here is part of the trusted base; each model states the CPython behaviour it
assumes.  A function with no model and symbolic arguments is Unsupported (undecided).
"""
from __future__ import annotations

import binascii
import collections
import enum
import struct
import types

import z3

from . import ops
from .core import BYTES, INT, PYVAL, STR, SV, ExcVal, PyRaise, Unsupported, lift
from .heap import MapRef, Row, SeqRef
from .laws import lawbook, py_decode, py_encode, py_isdigit
from .values import BoundMethod, DictView, IFunc, LazyMap, ModelFn, Obj, Opaque, SeqVal, SymList


def M(name):
    def deco(fn):
        return ModelFn(name, fn)

    return deco


# --------------------------------------------------------------------------- builtins
def m_int(it, a, k):
    if not a:
        return 0
    if len(a) > 1 or k:
        if ops.all_concrete(a):
            return it.raw_native(int, a, k)
        raise Unsupported("int() with base on symbolic value")
    return ops.to_int(it, a[0])


def m_str(it, a, k):
    if not a:
        return ""
    if len(a) > 1 or k:
        if ops.all_concrete(a):
            return it.raw_native(str, a, k)
        raise Unsupported("str(bytes, encoding) on symbolic value")
    return ops.to_str(it, a[0])


def m_bool(it, a, k):
    if not a:
        return False
    t = ops.truth(it, a[0])
    return t if isinstance(t, bool) else ops.mk("bool", t)


def m_len(it, a, k):
    v = ops.specialize(it, a[0])
    if isinstance(v, SV):
        if v.kind == "str":
            return ops.mk("int", lawbook(it.ctx).length(v.term))
        if v.kind == "bytes":
            return ops.mk("int", z3.Length(v.term))
        it.raise_(TypeError, f"object of kind {v.kind} has no len()")
    if isinstance(v, (SeqVal,)):
        return ops.mk("int", z3.Length(v.term))
    if isinstance(v, SeqRef):
        return ops.mk("int", z3.Length(v.term()))
    if isinstance(v, LazyMap):
        return ops.mk("int", v.src.len_t)
    if isinstance(v, SymList):
        return ops.mk("int", v.len_t)
    if isinstance(v, str):
        return len(v)
    if isinstance(v, MapRef):
        raise Unsupported("len() of a symbolic dict")
    if v is None or isinstance(v, (int, float)):
        it.raise_(TypeError, "object has no len()")
    if isinstance(v, (Obj, Row)):
        raise Unsupported("len() of an object")
    return len(v)


def m_isinstance(it, a, k):
    v, cls = a
    classes = cls if isinstance(cls, tuple) else (cls,)
    if isinstance(v, SV) and v.kind == "any":
        v = ops.specialize(it, v)
    if isinstance(v, (Obj, Row)):
        return any(isinstance(c, type) and issubclass(v.pycls, c) for c in classes)
    if isinstance(v, SV):
        py = {"int": int, "str": str, "bool": bool, "bytes": bytes, "real": float}[v.kind]
        return any(isinstance(c, type) and issubclass(py, c) for c in classes)
    if isinstance(v, MapRef):
        return any(c in (dict, collections.abc.Mapping) or c is object for c in classes)
    if isinstance(v, SeqVal):
        py = {"list": list, "bytes": bytes, "deque": collections.deque, "tuple": tuple}[v.pytype]
        return any(isinstance(c, type) and issubclass(py, c) for c in classes)
    if isinstance(v, SeqRef):
        return any(c is collections.deque for c in classes)
    if isinstance(v, ExcVal):
        return any(isinstance(c, type) and issubclass(v.cls, c) for c in classes)
    if isinstance(v, (IFunc, BoundMethod, ModelFn, Opaque)):
        return False
    return isinstance(v, classes)


def m_max(it, a, k):
    if len(a) == 1:
        v = a[0]
        if isinstance(v, DictView) and v.mode == "keys" or isinstance(v, MapRef):
            mr = v.mapref if isinstance(v, DictView) else v
            if mr.spec.arity != 1:
                raise Unsupported("max over tuple keys")
            if not it.branch(mr.nonempty()):
                it.raise_(ValueError, "max() arg is an empty sequence")
            m = it.ctx.fresh("int", "max")
            role = mr.spec.role
            it.ctx.add_index_term(role, m.term)
            dom = mr.dom_arr()
            it.ctx.add_fact(z3.Select(dom, m.term))
            it.ctx.add_universal((role,), lambda kk, _d=dom, _m=m.term: z3.Implies(z3.Select(_d, kk), kk <= _m), "max")
            return m
        if ops.all_concrete([v]):
            return it.raw_native(max, a, k)
        raise Unsupported("max over symbolic iterable")
    if ops.all_concrete(a):
        return it.raw_native(max, a, k)
    r = a[0]
    for x in a[1:]:
        kr, tr = lift(r)
        kx, tx = lift(x)
        r = ops.mk("int", z3.If(tx > tr, tx, tr))
    return r


def m_min(it, a, k):
    if ops.all_concrete(a):
        return it.raw_native(min, a, k)
    if len(a) >= 2:
        r = a[0]
        for x in a[1:]:
            kr, tr = lift(r)
            kx, tx = lift(x)
            r = ops.mk("int", z3.If(tx < tr, tx, tr))
        return r
    raise Unsupported("min over symbolic iterable")


def m_getattr(it, a, k):
    obj, name = a[0], a[1]
    if not isinstance(name, str):
        raise Unsupported("getattr with symbolic name")
    try:
        return it.getattr(obj, name)
    except PyRaise as pr:
        if len(a) > 2 and issubclass(pr.exc.cls, AttributeError):
            return a[2]
        raise


def m_setattr(it, a, k):
    obj, name, v = a
    if not isinstance(name, str):
        raise Unsupported("setattr with symbolic name")
    it.setattr(obj, name, v)
    return None


def m_hasattr(it, a, k):
    try:
        it.getattr(a[0], a[1])
        return True
    except PyRaise as pr:
        if issubclass(pr.exc.cls, AttributeError):
            return False
        raise


def m_tuple(it, a, k):
    if not a:
        return ()
    return tuple(ops.iter_concrete(it, a[0]))


def m_list(it, a, k):
    if not a:
        return []
    v = a[0]
    if isinstance(v, (SeqVal, LazyMap, SymList)):
        return v
    if isinstance(v, DictView):
        raise Unsupported("list() of a symbolic dict view")
    return list(ops.iter_concrete(it, v))


def m_dict(it, a, k):
    d = {}
    if a:
        v = a[0]
        if isinstance(v, dict):
            d.update(v)
        elif isinstance(v, MapRef):
            raise Unsupported("dict() copy of a symbolic dict")
        elif isinstance(v, Opaque) and not k:
            # a shallow copy of a value the engine only carries around (the registry handed to a serialiser): still opaque
            return Opaque(f"dict({v.name})")
        else:
            for kv in ops.iter_concrete(it, v):
                kk, vv = kv
                d[kk] = vv
    d.update(k)
    return d


def m_range(it, a, k):
    if ops.all_concrete(a):
        return range(*a)
    return SymRange(a)


class SymRange:
    _pyvc_symbolic = True
    def __init__(self, args):
        if len(args) == 1:
            self.start, self.stop = 0, args[0]
        elif len(args) == 2:
            self.start, self.stop = args
        else:
            raise Unsupported("range with step on symbolic bounds")


def m_next(it, a, k):
    v = a[0]
    if isinstance(v, list):  # generator expressions are evaluated eagerly into lists
        if v:
            return v[0]
        if len(a) > 1:
            return a[1]
        it.raise_(StopIteration)
    if ops.all_concrete([v]):
        return it.raw_native(next, a, k)
    raise Unsupported("next() on symbolic iterator")


def m_all(it, a, k):
    v = a[0]
    if isinstance(v, list):
        res = True
        conj = []
        for x in v:
            t = ops.truth(it, x)
            if isinstance(t, bool):
                if not t:
                    return False
            else:
                conj.append(t)
        return ops.mk("bool", z3.And(conj)) if conj else True
    raise Unsupported("all() on symbolic iterable")


def m_any(it, a, k):
    v = a[0]
    if isinstance(v, list):
        disj = []
        for x in v:
            t = ops.truth(it, x)
            if isinstance(t, bool):
                if t:
                    return True
            else:
                disj.append(t)
        return ops.mk("bool", z3.Or(disj)) if disj else False
    raise Unsupported("any() on symbolic iterable")


def m_sorted(it, a, k):
    if ops.all_concrete(a) and ops.all_concrete(list(k.values())):
        return it.raw_native(sorted, a, k)
    raise Unsupported("sorted() on symbolic values")


def m_repr(it, a, k):
    if ops.all_concrete(a):
        return repr(a[0])
    return ops.opaque_str(it, "repr")


def m_bytearray(it, a, k):
    if not a:
        return SeqVal("byte", z3.Empty(BYTES), "bytes")
    if ops.all_concrete(a):
        return SeqVal("byte", lift(bytes(bytearray(*a)))[1], "bytes")
    v = a[0]
    if isinstance(v, SeqVal) and v.elem_kind == "byte":
        return SeqVal("byte", v.term, "bytes")
    raise Unsupported("bytearray() of symbolic value")


def m_deque(it, a, k):
    if not a:
        return collections.deque()
    if ops.all_concrete(a):
        return collections.deque(*a)
    raise Unsupported("deque() of symbolic iterable")


def m_float(it, a, k):
    v = ops.specialize(it, a[0])
    if not isinstance(v, SV):
        return it.raw_native(float, a, k)
    if v.kind == "int":
        return SV("real", z3.ToReal(v.term))
    if v.kind == "real":
        return v
    if v.kind == "str":
        from .laws import py_float, py_float_ok

        if not it.branch(py_float_ok(v.term)):
            it.raise_(ValueError, "could not convert string to float")
        return FloatVal(v.term)
    raise Unsupported("float() of this kind")


class FloatVal:
    _pyvc_symbolic = True
    """float(s) for a symbolic string: value py_float(s) with nan/inf flags (see T-vol)."""

    def __init__(self, src):
        self.src = src


def m_callable(it, a, k):
    v = a[0]
    if isinstance(v, (IFunc, BoundMethod, ModelFn)):
        return True
    if isinstance(v, Opaque):
        return v.callable_contract is not None
    if isinstance(v, (SV, Obj, Row, MapRef)):
        return False
    return callable(v)


def m_id(it, a, k):
    raise Unsupported("id()")


def m_type(it, a, k):
    v = a[0]
    if isinstance(v, (Obj, Row)):
        return v.pycls
    if isinstance(v, SV):
        return {"int": int, "str": str, "bool": bool, "bytes": bytes, "real": float}.get(v.kind) or _unsupported("type() of any")
    if isinstance(v, ExcVal):
        return v.cls
    return type(v)


def _unsupported(msg):
    raise Unsupported(msg)


BUILTIN_MODELS = {
    int: m_int,
    str: m_str,
    bool: m_bool,
    len: m_len,
    isinstance: m_isinstance,
    max: m_max,
    min: m_min,
    getattr: m_getattr,
    setattr: m_setattr,
    hasattr: m_hasattr,
    tuple: m_tuple,
    list: m_list,
    dict: m_dict,
    range: m_range,
    next: m_next,
    all: m_all,
    any: m_any,
    sorted: m_sorted,
    repr: m_repr,
    bytearray: m_bytearray,
    collections.deque: m_deque,
    float: m_float,
    callable: m_callable,
    type: m_type,
}


# --------------------------------------------------------------------------- binascii / struct
py_fromhex_ok = z3.Function("py_fromhex_ok", STR, z3.BoolSort())


def m_fromhex(it, a, k):
    """bytes.fromhex(text): NOT the same acceptance as binascii.unhexlify - it skips ASCII whitespace between byte
    pairs.  Modelled by its own predicate with the one law `unhexlify accepts s  =>  fromhex accepts s, same bytes`
    (audited natively); what else it accepts is left open, so code that swaps one decoder for the other is not
    silently taken to validate the same language."""
    if len(a) != 1 or k:
        raise Unsupported("bytes.fromhex arguments")
    v = ops.specialize(it, a[0])
    kind, t = lift(v)
    if kind != "str":
        it.raise_(TypeError, "fromhex() argument must be str")
    ok, b = lawbook(it.ctx).unhexlify(t)
    fok = py_fromhex_ok(t)
    it.ctx.add_fact(z3.Implies(ok, fok))
    if not it.branch(fok):
        it.raise_(ValueError, "non-hexadecimal number found in fromhex() arg")
    r = it.ctx.fresh_term(b.sort(), "fromhex")
    it.ctx.add_fact(z3.Implies(ok, r == b))
    return SeqVal("byte", r, "bytes")


def m_unhexlify(it, a, k):
    v = a[0]
    if ops.all_concrete(a):
        return it.raw_native(binascii.unhexlify, a, k)
    v = ops.specialize(it, v)
    if v is None or (isinstance(v, SV) and v.kind not in ("str", "bytes")) or isinstance(v, (int, bool)):
        it.raise_(TypeError, "argument should be bytes, buffer or ASCII string")
    kind, t = lift(v)
    if kind != "str":
        raise Unsupported("unhexlify of bytes")
    ok, b = lawbook(it.ctx).unhexlify(t)
    if not it.branch(ok):
        it.raise_(binascii.Error, "Odd-length string / Non-hexadecimal digit found")
    r = SeqVal("byte", b, "bytes")
    r.hexsrc = t  # the bytes are unhexlify(t): word access can stay on the text level
    return r


def m_hexlify(it, a, k):
    if ops.all_concrete(a):
        return it.raw_native(binascii.hexlify, a, k)
    v = a[0]
    pw = getattr(v, "packed_words", None)
    if pw is not None:
        return HexBytes(le16hex_term(it, pw))
    t = ops._seq_term(v)
    h = lawbook(it.ctx).hexlify(t)
    # hexlify returns bytes made of ASCII hex digits; we keep it as text and make decode() the identity
    return HexBytes(h)


_LE16 = {}


def le16hex_term(it, words):
    """hexlify(struct.pack('<nH', *words)) as text: one uninterpreted function per arity, with the H-laws
    (length 4n, hex digits only, and unpacking it gives the words back)."""
    from .laws import py_rstrip, py_unhex_ok, s_contains, SEP_CHARS
    from .core import s_len, strlit

    n = len(words)
    f = _LE16.get(n)
    if f is None:
        f = z3.Function(f"le16hex{n}", *([INT] * n + [STR]))
        _LE16[n] = f
    t = f(*words)
    lb = lawbook(it.ctx)
    if lb._once("le16hex", t):
        c = it.ctx
        c.add_fact(s_len(t) == 4 * n)
        c.add_fact(py_unhex_ok(t))
        c.add_fact(py_rstrip(t) == t)
        for ch in SEP_CHARS:
            c.add_fact(z3.Not(s_contains(t, strlit(ch))))
        for i, w in enumerate(words):
            c.add_fact(hex_word_uf(t, z3.IntVal(i)) == w)
    return t


class HexBytes:
    _pyvc_symbolic = True
    """bytes object produced by hexlify(): ASCII only, carried as its text."""

    def __init__(self, text_term):
        self.text = text_term


def _word_le(b, i):
    """16-bit little endian word i of byte sequence term b as an Int term."""
    lo = z3.BV2Int(b[2 * i])
    hi = z3.BV2Int(b[2 * i + 1])
    return lo + 256 * hi


hex_word_uf = z3.Function("hex_word", STR, INT, INT)  # word i (little endian) of unhexlify(s)


def m_struct_unpack(it, a, k):
    fmt, data = a
    fmt = ops.force(fmt)
    if ops.all_concrete([fmt, data]):
        return it.raw_native(struct.unpack, [fmt, data], k)
    if not isinstance(fmt, str):
        raise Unsupported("symbolic struct format")
    n = _parse_fmt(fmt)
    src = getattr(data, "hexsrc", None)
    if src is not None:
        # bytes = unhexlify(src) (already known to be well-formed hex): len(bytes) = len(src) / 2
        lb = lawbook(it.ctx)
        if not it.branch(lb.length(src) == 4 * n):
            it.raise_(struct.error, f"unpack requires a buffer of {2 * n} bytes")
        out = []
        for i in range(n):
            w = hex_word_uf(src, z3.IntVal(i))
            it.ctx.add_fact(z3.And(w >= 0, w <= 65535))
            out.append(ops.mk("int", w))
        return tuple(out)
    t = ops._seq_term(data)
    if not it.branch(z3.Length(t) == 2 * n):
        it.raise_(struct.error, f"unpack requires a buffer of {2 * n} bytes")
    out = []
    for i in range(n):
        w = it.ctx.fresh("int", "word")
        it.ctx.add_fact(w.term == _word_le(t, i))
        it.ctx.add_fact(z3.And(w.term >= 0, w.term <= 65535))
        out.append(w)
    return tuple(out)


def _parse_fmt(fmt):
    if not (fmt.startswith("<") and fmt.endswith("H")):
        raise Unsupported(f"struct format {fmt}")
    mid = fmt[1:-1]
    return int(mid) if mid else 1


def m_struct_pack(it, a, k):
    fmt = a[0]
    vals = a[1:]
    if ops.all_concrete(a):
        return it.raw_native(struct.pack, a, k)
    if not isinstance(fmt, str):
        raise Unsupported("symbolic struct format")
    n = _parse_fmt(fmt)
    if n != len(vals):
        it.raise_(struct.error, f"pack expected {n} items for packing (got {len(vals)})")
    t = z3.Empty(BYTES)
    for v in vals:
        v = ops.specialize(it, v)
        if v is None or isinstance(v, str) or (isinstance(v, SV) and v.kind not in ("int", "bool")):
            it.raise_(struct.error, "required argument is not an integer")
        kind, tv = lift(v)
        if kind == "bool":
            tv = z3.If(tv, 1, 0)
        if not it.branch(z3.And(tv >= 0, tv <= 65535)):
            it.raise_(struct.error, "ushort format requires 0 <= number <= 65535")
        lo = z3.Int2BV(tv % 256, 8)
        hi = z3.Int2BV(tv / 256, 8)
        t = z3.Concat(t, z3.Unit(lo), z3.Unit(hi))
    r = SeqVal("byte", z3.simplify(t), "bytes")
    r.packed_words = [(z3.If(lift(v)[1], 1, 0) if lift(v)[0] == "bool" else lift(v)[1]) for v in [ops.specialize(it, v) for v in vals]]
    return r


# --------------------------------------------------------------------------- methods on values
STR_NATIVE_OK = {
    "rstrip", "strip", "lstrip", "split", "join", "encode", "find", "isdigit", "startswith", "endswith", "lower",
    "upper", "format", "replace", "count", "rsplit", "splitlines", "partition", "decode", "hex", "index",
}


def method_model(it, obj, name):
    """Return a ModelFn for obj.name(...) or None to fall back to native getattr."""
    if isinstance(obj, (SV, str)) and (isinstance(obj, str) or obj.kind == "str"):
        f = STR_METHODS.get(name)
        if f is not None:
            return ModelFn(f"str.{name}", lambda it2, a, k, _o=obj, _f=f, _n=name: _str_method(it2, _o, _n, _f, a, k))
        if isinstance(obj, str):
            return None
        raise Unsupported(f"str.{name} on a symbolic string")
    if isinstance(obj, SV):
        if obj.kind == "int" and name in ("value",):
            return None
        raise Unsupported(f"attribute {name} on symbolic {obj.kind}")
    if isinstance(obj, HexBytes):
        if name == "decode":
            return ModelFn("hexbytes.decode", lambda it2, a, k, _o=obj: ops.mk("str", _o.text))
        raise Unsupported(f"bytes.{name} on hexlify result")
    if isinstance(obj, SeqVal):
        f = SEQ_METHODS.get(name)
        if f is None:
            raise Unsupported(f"{obj.pytype}.{name} on a symbolic sequence")
        return ModelFn(f"seq.{name}", lambda it2, a, k, _o=obj, _f=f: _f(it2, _o, a, k))
    if isinstance(obj, SeqRef):
        f = SEQREF_METHODS.get(name)
        if f is None:
            raise Unsupported(f"deque.{name} on a symbolic deque slot")
        return ModelFn(f"deque.{name}", lambda it2, a, k, _o=obj, _f=f: _f(it2, _o, a, k))
    if isinstance(obj, MapRef):
        f = MAP_METHODS.get(name)
        if f is None:
            raise Unsupported(f"dict.{name} on a symbolic dict slot")
        return ModelFn(f"dict.{name}", lambda it2, a, k, _o=obj, _f=f: _f(it2, _o, a, k))
    if type(obj).__name__ == "CompList":
        if name == "extend":
            return ModelFn("complist.extend", lambda it2, a, k, _o=obj: _o.extra.append(a[0]))
        raise Unsupported(f"list.{name} on a comprehension over symbolic dicts")
    if isinstance(obj, SymList):
        if name == "pop":
            return ModelFn("symlist.pop", lambda it2, a, k, _o=obj: symlist_pop(it2, _o, a))
        if name == "append":
            return ModelFn("symlist.append", lambda it2, a, k, _o=obj: _o.appended(lift(ops.force(a[0]))[1]))
        raise Unsupported(f"list.{name} on a list of symbolic length")
    if isinstance(obj, LazyMap):
        raise Unsupported(f"list.{name} on lazily mapped list")
    if isinstance(obj, dict):
        if name in ("get", "pop", "setdefault") :
            return ModelFn(f"cdict.{name}", lambda it2, a, k, _o=obj, _n=name: _cdict_method(it2, _o, _n, a, k))
        if name in ("items", "keys", "values", "update", "copy", "clear"):
            if name == "update":
                return ModelFn("cdict.update", lambda it2, a, k, _o=obj: _cdict_update(it2, _o, a, k))
            if name == "clear":
                return ModelFn("cdict.clear", lambda it2, a, k, _o=obj: (it2.guard_write(_o), _o.clear())[1])
            return None
        return None
    if isinstance(obj, (list, collections.deque)):
        if name in ("append", "pop", "popleft", "extend", "copy", "clear", "insert", "appendleft", "reverse"):
            return ModelFn(f"clist.{name}", lambda it2, a, k, _o=obj, _n=name: _clist_method(it2, _o, _n, a, k))
        if name in ("index", "remove", "count", "sort"):
            if ops.all_concrete(list(obj)):
                return None
            raise Unsupported(f"list.{name} on a list with symbolic members")
        return None
    if isinstance(obj, (bytes, bytearray)) and name == "decode":
        return None
    if isinstance(obj, (bytes, bytearray)):
        return None
    return None


def _cdict_method(it, d, name, a, k):
    key = a[0]
    if name in ("pop", "setdefault"):
        it.guard_write(d)
    if isinstance(key, SV) or (isinstance(key, tuple) and not ops.all_concrete([key])):
        if name == "get":
            default = a[1] if len(a) > 1 else None
            return ops.dict_lookup_sym(it, d, key, default=default)
        raise Unsupported(f"dict.{name} with a symbolic key on a concrete dict")
    try:
        return getattr(d, name)(*a, **k)
    except (KeyError, TypeError) as exc:
        raise PyRaise(ExcVal(type(exc), exc.args)) from None


def _cdict_update(it, d, a, k):
    it.guard_write(d)
    for src in a:
        if isinstance(src, dict):
            d.update(src)
        elif isinstance(src, MapRef):
            raise Unsupported("concrete dict updated from a symbolic dict")
        else:
            for kk, vv in ops.iter_concrete(it, src):
                d[kk] = vv
    d.update(k)
    return None


def _clist_method(it, lst, name, a, k):
    if name != "copy":
        it.guard_write(lst)
    try:
        return getattr(lst, name)(*a, **k)
    except (IndexError, TypeError) as exc:
        raise PyRaise(ExcVal(type(exc), exc.args)) from None


def _str_method(it, obj, name, f, a, k):
    if ops.all_concrete([obj] + list(a) + list(k.values())):
        try:
            return getattr(obj, name)(*a, **k)
        except Exception as exc:  # pylint: disable=broad-except
            raise PyRaise(ExcVal(type(exc), exc.args)) from None
    return f(it, lift(obj)[1], a, k)


py_rstrip_chars = z3.Function("py_rstrip_chars", STR, STR, STR)


def s_rstrip(it, t, a, k):
    if a:
        # rstrip(chars): uninterpreted (only: the result is a prefix, not longer than the argument)
        from .laws import s_prefixof

        kind, chars = lift(ops.force(a[0]))
        lb = lawbook(it.ctx)
        r = py_rstrip_chars(t, chars)
        if lb._once("rstrip_chars", t, chars):
            it.ctx.add_fact(s_prefixof(r, t))
            it.ctx.add_fact(lb.length(r) <= lb.length(t))
        return ops.mk("str", r)
    return ops.mk("str", lawbook(it.ctx).rstrip(t))


def s_strip(it, t, a, k):
    if a:
        raise Unsupported("strip(chars)")
    return ops.mk("str", lawbook(it.ctx).strip(t))


def s_split(it, t, a, k):
    if not a:
        raise Unsupported("split() on whitespace")
    if len(a) > 1:
        maxsplit = a[1]
        if maxsplit == 1:
            return s_split1(it, t, a[0])
        raise Unsupported("split with maxsplit")
    kind, sep = lift(a[0])
    if kind != "str":
        it.raise_(TypeError, "must be str or None")
    from .core import lit_value

    if lit_value(sep) in (None, ""):
        raise Unsupported("split with a symbolic or empty separator")
    n, get = lawbook(it.ctx).split(t, sep)
    return SymList(n, get)


def s_split1(it, t, sep):
    raise Unsupported("str.split(sep, 1)")


def s_join(it, t, a, k):
    v = a[0]
    lb = lawbook(it.ctx)
    if isinstance(v, (list, tuple)):
        parts = []
        for x in v:
            x = ops.specialize(it, ops.force(x))
            if not (isinstance(x, str) or (isinstance(x, SV) and x.kind == "str")):
                it.raise_(TypeError, "sequence item: expected str instance")
            parts.append(lift(x)[1])
        return ops.mk("str", lb.join_parts(t, parts))
    if isinstance(v, SymList):
        n = z3.simplify(v.len_t)
        if not z3.is_int_value(n):
            # fork on the (small) length
            K = 8
            conds = [n == i for i in range(K + 1)] + [z3.Or(n < 0, n > K)]
            kk = it.ctx.choose(conds, labels=[f"len={i}" for i in range(K + 1)] + ["longer"], site="join")
            if kk > K:
                raise Unsupported("join over a list of more than 8 symbolic elements")
            n = z3.IntVal(kk)
        return ops.mk("str", lb.join_parts(t, [z3.simplify(v.elem(i)) for i in range(n.as_long())]))
    raise Unsupported("join over this iterable")


def s_encode(it, t, a, k):
    return SeqVal("byte", py_encode(t), "bytes")


def s_find(it, t, a, k):
    from .laws import s_find as F

    kind, sub = lift(a[0])
    lb = lawbook(it.ctx)
    r = F(t, sub)
    if lb._once("find", t, sub):
        it.ctx.add_fact(r >= -1)
        it.ctx.add_fact((r >= 0) == lb.contains(t, sub))
        it.ctx.add_fact(z3.Implies(r >= 0, r + lb.length(sub) <= lb.length(t)))
    return ops.mk("int", r)


def s_isdigit(it, t, a, k):
    return ops.mk("bool", py_isdigit(t))


def s_startswith(it, t, a, k):
    from .laws import s_prefixof

    kind, p = lift(a[0])
    return ops.mk("bool", s_prefixof(p, t))


def s_endswith(it, t, a, k):
    from .laws import s_suffixof

    kind, p = lift(a[0])
    return ops.mk("bool", s_suffixof(p, t))


def s_partition(it, t, a, k):
    """s.partition(sep): (head, sep, tail) with s = head ++ sep ++ tail at the first occurrence of sep,
    or (s, '', '') when sep does not occur.  (First-occurrence is only stated as: find(s, sep) = len(head).)"""
    from .laws import s_find as F

    kind, sep = lift(ops.force(a[0]))
    lb = lawbook(it.ctx)
    has = lb.contains(t, sep)
    if not it.branch(has):
        return (ops.mk("str", t), "", "")
    head = it.ctx.fresh("str", "part_head")
    tail = it.ctx.fresh("str", "part_tail")
    it.ctx.add_fact(t == lb.concat([head.term, sep, tail.term]))
    it.ctx.add_fact(F(t, sep) == lb.length(head.term))
    return (head, ops.mk("str", sep), tail)


def s_rpartition(it, t, a, k):
    """s.rpartition(sep): (head, sep, tail) with s = head ++ sep ++ tail at the last occurrence of sep (sep does
    not occur in tail), or ('', '', s) when sep does not occur"""
    kind, sep = lift(ops.force(a[0]))
    lb = lawbook(it.ctx)
    has = lb.contains(t, sep)
    if not it.branch(has):
        return ("", "", ops.mk("str", t))
    head = it.ctx.fresh("str", "rpart_head")
    tail = it.ctx.fresh("str", "rpart_tail")
    it.ctx.add_fact(t == lb.concat([head.term, sep, tail.term]))
    it.ctx.add_fact(z3.Not(lb.contains(tail.term, sep)))
    return (head, ops.mk("str", sep), tail)


def s_splitlines(it, t, a, k):
    """str.splitlines() of a symbolic text: a list of lines of unknown length; the one law used (a fact about the
    CPython builtin, audited in audits/laws_audit.py): the list is empty exactly for the empty string."""
    if a or k:
        raise Unsupported("splitlines(keepends)")
    from .core import lit_value, strlit

    lv = lit_value(t)
    if lv is not None:
        return lv.splitlines()
    n = it.ctx.fresh_term(INT, "splitlines_len")
    it.ctx.add_fact(n >= 0)
    it.ctx.add_fact((n == 0) == (t == strlit("")))
    get = z3.Function(f"splitlines_get!{it.ctx.fresh_term(INT, 'sl').decl().name()}", INT, STR)
    return SymList(n, lambda i, _g=get: _g(i))


STR_METHODS = {
    "splitlines": s_splitlines,
    "partition": s_partition,
    "rpartition": s_rpartition,
    "rstrip": s_rstrip,
    "strip": s_strip,
    "split": s_split,
    "join": s_join,
    "encode": s_encode,
    "find": s_find,
    "isdigit": s_isdigit,
    "startswith": s_startswith,
    "endswith": s_endswith,
}


def symlist_pop(it, lst, a):
    if a:
        raise Unsupported("list.pop(i) on a list of symbolic length")
    ln = lst.len_t
    if not it.branch(ln >= 1):
        it.raise_(IndexError, "pop from empty list")
    e = ops.mk("str", lst.elem(z3.simplify(ln - 1)))
    lst.len_t = z3.simplify(ln - 1)
    return e


def q_pop(it, sv, a, k):
    ln = z3.Length(sv.term)
    if a:
        raise Unsupported("list.pop(i) on symbolic list")
    if not it.branch(ln >= 1):
        it.raise_(IndexError, "pop from empty list")
    e = ops.seq_elem(it, sv, SV("int", ln - 1))
    sv.term = z3.SubSeq(sv.term, 0, ln - 1)
    return e


def q_append(it, sv, a, k):
    sv.term = z3.Concat(sv.term, z3.Unit(lift(a[0])[1]))
    return None


def q_decode(it, sv, a, k):
    if sv.elem_kind != "byte":
        raise Unsupported("decode on non-bytes")
    pw = getattr(sv, "hex_text", None)
    return ops.mk("str", py_decode(sv.term))


def q_extend(it, sv, a, k):
    sv.term = z3.Concat(sv.term, ops._seq_term(a[0]))
    return None


def q_split(it, sv, a, k):
    """bytes.split(sep, 1) on a buffer known to contain sep: [prefix before the first sep, rest after it]"""
    if sv.elem_kind != "byte" or len(a) != 2 or a[1] != 1:
        raise Unsupported("split on a symbolic sequence (only bytes.split(sep, 1))")
    sep = ops._seq_term(a[0])
    t = sv.term
    i = z3.IndexOf(t, sep, 0)
    if not it.branch(i >= 0):
        return [SeqVal("byte", t, "bytes")]
    head = it.ctx.fresh_term(BYTES, "packet")
    tail = it.ctx.fresh_term(BYTES, "rest")
    it.ctx.add_fact(t == z3.Concat(head, sep, tail))
    it.ctx.add_fact(z3.Not(z3.Contains(head, sep)))
    return [SeqVal("byte", head, "bytes"), SeqVal("byte", tail, "bytes")]


def q_ljust(it, sv, a, k):
    """bytes.ljust(width, b'\xff'): the bytes followed by max(width - len, 0) fill bytes"""
    if sv.elem_kind != "byte" or len(a) != 2 or bytes(a[1]) != b"\xff":
        raise Unsupported("ljust on this sequence / fill byte")
    kind, w = lift(a[0])
    ln = z3.Length(sv.term)
    n = z3.If(w - ln > 0, w - ln, z3.IntVal(0))
    lb = lawbook(it.ctx)
    pad = lb.ff(n)
    lb.ff_step(n)
    return SeqVal("byte", z3.Concat(sv.term, pad), "bytes")


def q_clear(it, sv, a, k):
    sv.term = z3.Empty(sv.term.sort())
    return None


def q_strip(it, sv, a, k):
    """bytes.strip() / lstrip() / rstrip(): some contiguous part of the bytes - possibly empty although the bytes
    are not (a chunk of blanks and line endings).  Over-approximation: which part is left open."""
    if sv.elem_kind != "byte" or a or k:
        raise Unsupported("strip on this sequence / with arguments")
    r = it.ctx.fresh_term(sv.term.sort(), "stripped")
    it.ctx.add_fact(z3.Contains(sv.term, r))
    return SeqVal("byte", r, "bytes")


SEQ_METHODS = {"strip": q_strip, "lstrip": q_strip, "rstrip": q_strip, "clear": q_clear, "ljust": q_ljust, "split": q_split, "pop": q_pop, "append": q_append, "decode": q_decode, "extend": q_extend}


def r_append(it, sr, a, k):
    if sr.world.frozen:
        raise Unsupported("write through an old-state reference")
    if it.write_log is not None:
        it.write_log.append((sr.col, "append"))
    sr.set_term(z3.Concat(sr.term(), z3.Unit(ops.to_kind_term(a[0], sr.kind))))
    return None


def r_popleft(it, sr, a, k):
    if sr.world.frozen:
        raise Unsupported("write through an old-state reference")
    t = sr.term()
    ln = z3.Length(t)
    if not it.branch(ln >= 1):
        it.raise_(IndexError, "pop from an empty deque")
    e = ops.mk(sr.kind, t[0])
    if it.write_log is not None:
        it.write_log.append((sr.col, "popleft"))
    if it.ctx.__dict__.get("_q_atoms"):
        from .contract import q_all_popleft

        q_all_popleft(it, t)
    sr.set_term(z3.SubSeq(t, 1, ln - 1))
    return e


def r_pop(it, sr, a, k):
    if sr.world.frozen:
        raise Unsupported("write through an old-state reference")
    if a:
        raise Unsupported("pop(i) on a symbolic deque/list slot")
    t = sr.term()
    ln = z3.Length(t)
    if not it.branch(ln >= 1):
        it.raise_(IndexError, "pop from an empty deque")
    e = ops.mk(sr.kind, t[ln - 1])
    if it.write_log is not None:
        it.write_log.append((sr.col, "pop"))
    sr.set_term(z3.SubSeq(t, 0, ln - 1))
    return e


def r_appendleft(it, sr, a, k):
    if sr.world.frozen:
        raise Unsupported("write through an old-state reference")
    if it.write_log is not None:
        it.write_log.append((sr.col, "appendleft"))
    sr.set_term(z3.Concat(z3.Unit(ops.to_kind_term(a[0], sr.kind)), sr.term()))
    return None


def r_clear(it, sr, a, k):
    sr.set_term(z3.Empty(sr.term().sort()))
    return None


SEQREF_METHODS = {"append": r_append, "popleft": r_popleft, "clear": r_clear, "pop": r_pop, "appendleft": r_appendleft}


def d_get(it, m, a, k):
    key = a[0]
    default = a[1] if len(a) > 1 else None
    key = ops.specialize(it, key) if not isinstance(key, tuple) else key
    c = ops.contains(it, m, key)
    from .heap import ValDict

    if isinstance(m.spec, ValDict) and default is None and not isinstance(c, bool):
        # no fork: merge "absent" and "stored None" as Python's .get does
        v = m.read(key)
        from .core import to_any

        return ops.mk("any", z3.If(c, to_any(v), PYVAL.none))
    if it.branch(c):
        return m.read(key)
    return default


def d_pop(it, m, a, k):
    if m.world.frozen:
        raise Unsupported("write through an old-state reference")
    key = a[0]
    key = ops.specialize(it, key) if not isinstance(key, tuple) else key
    c = ops.contains(it, m, key)
    if it.branch(c):
        v = m.read(key)
        if isinstance(v, Row):
            raise Unsupported("pop of an object row")
        if it.write_log is not None:
            it.write_log.append((m.prefix, "pop"))
        m.set_dom(key, False)
        return v
    if len(a) > 1:
        return a[1]
    it.raise_(KeyError, "key")


def d_keys(it, m, a, k):
    return DictView(m, "keys")


def d_values(it, m, a, k):
    return DictView(m, "values")


def d_items(it, m, a, k):
    return DictView(m, "items")


def d_clear(it, m, a, k):
    m.clear()
    return None


def d_update(it, m, a, k):
    """dict.update(loaded): the engine only records *what* was merged (ghost list `merged`)."""
    it.ctx.ghost.setdefault("merged", []).append(a[0] if a else None)
    if it.write_log is not None:
        it.write_log.append((m.prefix, "update"))
    for c in m.world.columns_under(m.prefix):
        m.world.havoc(c)
    return None


MAP_METHODS = {"update": d_update, "get": d_get, "pop": d_pop, "keys": d_keys, "values": d_values, "items": d_items, "clear": d_clear}


# --------------------------------------------------------------------------- install
def install(it):
    for fn, m in BUILTIN_MODELS.items():
        it.models[id(fn)] = ModelFn(getattr(fn, "__name__", str(fn)), m)
    it.models[id(binascii.unhexlify)] = ModelFn("binascii.unhexlify", m_unhexlify)
    it.models[id(binascii.hexlify)] = ModelFn("binascii.hexlify", m_hexlify)
    it.models[id(struct.unpack)] = ModelFn("struct.unpack", m_struct_unpack)
    it.models[id(struct.pack)] = ModelFn("struct.pack", m_struct_pack)
    it._keepalive = [binascii.unhexlify, binascii.hexlify, struct.unpack, struct.pack]
    # logging: a logger method reached as a value (passed to a helper, bound to a local) does nothing the
    # properties can observe; its arguments were evaluated by the caller
    import logging

    for lname in ("debug", "info", "warning", "error", "exception", "critical", "log"):
        it.models[id(getattr(logging.Logger, lname))] = ModelFn(f"Logger.{lname}", lambda it2, a, k: None)
    from . import libmodels

    libmodels.install(it)
