"""Heap encoding: owned containers are modelled *by value* as nested z3 arrays.

The gateway's state is a tree (Gateway -> sensors{id} -> children/new_state{id} -> values{vt});
the code never shares a Sensor/ChildSensor/dict between two slots.  A "dict of objects" is a
Table: one nested array per field, indexed by the keys on the access path.  A local such as
`sensor = gateway.sensors[n]` holds a Row (an access path), not a snapshot: reads resolve
against the current columns and writes go through the path.  Frames are free (Store), old
states are free (terms are immutable; a snapshot copies a dict of terms).
"""
from __future__ import annotations

import z3

from .core import (
    BOOL,
    INT,
    KIND_SORT,
    QSTR,
    PYVAL,
    SV,
    EngineError,
    Unsupported,
    simplify_val,
    to_kind,
    lift,
)


# --------------------------------------------------------------------------- schema
class Scalar:
    def __init__(self, kind):
        self.kind = kind


class Deque:
    """deque/list of strings held in a slot (z3 sequence of strings)."""

    def __init__(self, kind="str"):
        self.kind = kind


class ValDict:
    """dict[key -> scalar]."""

    def __init__(self, role, kind, arity=1):
        self.role, self.kind, self.arity = role, kind, arity


class TupleDict:
    """dict[key -> tuple of scalars]."""

    def __init__(self, role, kinds, arity=1):
        self.role, self.kinds, self.arity = role, tuple(kinds), arity


class ObjDict:
    """dict[key -> object of class `cls`] (owned)."""

    def __init__(self, role, cls, arity=1):
        self.role, self.cls, self.arity = role, cls, arity


class ClassSchema:
    def __init__(self, name, pycls, fields, kind="obj"):
        self.name = name
        self.pycls = pycls  # real class (methods / properties are looked up here) or None
        self.fields = fields  # name -> Scalar | Deque | ValDict | TupleDict | ObjDict
        self.kind = kind  # "obj" (attribute access) | "rec" (subscript access by str key)


def nested_sort(n, rng):
    s = rng
    for _ in range(n):
        s = z3.ArraySort(INT, s)
    return s


def sel(arr, idxs):
    for i in idxs:
        arr = z3.Select(arr, i)
    return arr


def sto(arr, idxs, v):
    if not idxs:
        return v
    i = idxs[0]
    return z3.Store(arr, i, sto(z3.Select(arr, i), idxs[1:], v))


def const_arr(n, val, rng_sort):
    """n-dimensional constant array."""
    t = val
    s = rng_sort
    for _ in range(n):
        t = z3.K(INT, t)
        s = z3.ArraySort(INT, s)
    return t


def key_terms(k, arity):
    """A Python-level key (scalar or tuple of scalars) -> list of z3 Int terms."""
    if arity == 1:
        ks = [k]
    else:
        if not isinstance(k, tuple) or len(k) != arity:
            raise Unsupported(f"key of arity {arity} expected")
        ks = list(k)
    out = []
    for x in ks:
        kind, t = lift(x)
        if kind == "any":
            t = PYVAL.iv(t)
        elif kind == "bool":
            t = z3.If(t, 1, 0)
        elif kind != "int":
            raise Unsupported(f"non-integer dictionary key of kind {kind}")
        out.append(t)
    return out


class World:
    """All array-encoded state of one path: column name -> z3 term."""

    def __init__(self, ctx, frozen=False):
        self.ctx = ctx
        self.cols = {}
        self.sorts = {}
        self.frozen = frozen
        self.tag = "cur"

    def declare(self, name, sort, hint=None):
        if name not in self.cols:
            self.cols[name] = self.ctx.fresh_term(sort, hint or name)
            self.sorts[name] = sort

    def snapshot(self, tag="old"):
        w = World(self.ctx, frozen=True)
        w.cols = dict(self.cols)
        w.sorts = self.sorts
        w.tag = tag
        return w

    def get(self, name):
        return self.cols[name]

    def set(self, name, term):
        if self.frozen:
            raise EngineError(f"write to frozen world ({self.tag}) column {name}")
        self.cols[name] = term

    def havoc(self, name):
        self.set(name, self.ctx.fresh_term(self.sorts[name], name + "_h"))

    def columns_under(self, prefix):
        return [n for n in self.cols if n == prefix or n.startswith(prefix + ".")]


def declare_dict(world, prefix, spec, depth):
    """Declare the columns for a dict-valued slot `prefix` nested under `depth` outer keys."""
    d = depth + spec.arity
    world.declare(prefix + ".#dom", nested_sort(d, BOOL))
    if isinstance(spec, ValDict):
        world.declare(prefix + ".#val", nested_sort(d, KIND_SORT[spec.kind]))
    elif isinstance(spec, TupleDict):
        for i, k in enumerate(spec.kinds):
            world.declare(f"{prefix}.#{i}", nested_sort(d, KIND_SORT[k]))
    elif isinstance(spec, ObjDict):
        for fname, fs in spec.cls.fields.items():
            if isinstance(fs, Scalar):
                world.declare(f"{prefix}.{fname}", nested_sort(d, KIND_SORT[fs.kind]))
            elif isinstance(fs, Deque):
                world.declare(f"{prefix}.{fname}", nested_sort(d, QSTR))
            else:
                declare_dict(world, f"{prefix}.{fname}", fs, d)


class MapRef:
    """A dict held in a slot: access path = (world, column prefix, outer keys)."""

    def __init__(self, world, prefix, spec, keys=()):
        self.world, self.prefix, self.spec, self.keys = world, prefix, spec, tuple(keys)

    def __repr__(self):
        return f"MapRef<{self.world.tag}:{self.prefix}{list(self.keys)}>"

    # --- basic terms
    def dom_arr(self):
        return sel(self.world.get(self.prefix + ".#dom"), self.keys)

    def _kt(self, k):
        kt = key_terms(k, self.spec.arity)
        roles = self.spec.role if isinstance(self.spec.role, tuple) else (self.spec.role,) * self.spec.arity
        for r, t in zip(roles, kt):
            self.world.ctx.add_index_term(r, t)
        return kt

    def contains(self, k):
        return sel(self.dom_arr(), self._kt(k))

    def nonempty(self):
        dom = self.dom_arr()
        ne = dom != const_arr(self.spec.arity, z3.BoolVal(False), BOOL)
        if self.spec.arity == 1:
            # witness: "non-empty" <=> the dict has the key w, for a w chosen per domain term (sound: pick any
            # member if there is one).  w is logged as an index term, so the universal hypotheses over this key
            # role are instantiated at it - without it "some key exists" never meets "for all keys".
            ctx = self.world.ctx
            memo = ctx.__dict__.setdefault("_ne_witness", {})
            k = dom.get_id()
            if k not in memo:
                w = ctx.fresh_term(INT, "wit")
                memo[k] = (dom, w)
                ctx.add_fact(ne == z3.Select(dom, w))
                role = self.spec.role if not isinstance(self.spec.role, tuple) else self.spec.role[0]
                ctx.add_index_term(role, w)
        return ne

    def with_world(self, w):
        return MapRef(w, self.prefix, self.spec, self.keys)

    # --- reads (domain membership is the caller's business)
    def read(self, k):
        kt = self._kt(k)
        idx = list(self.keys) + kt
        sp = self.spec
        if isinstance(sp, ValDict):
            return simplify_val(sp.kind, sel(self.world.get(self.prefix + ".#val"), idx))
        if isinstance(sp, TupleDict):
            return tuple(
                simplify_val(kd, sel(self.world.get(f"{self.prefix}.#{i}"), idx))
                for i, kd in enumerate(sp.kinds)
            )
        return Row(self.world, self.prefix, sp.cls, idx)

    # --- writes
    def set_dom(self, k, present: bool):
        kt = self._kt(k)
        idx = list(self.keys) + kt
        n = self.prefix + ".#dom"
        self.world.set(n, sto(self.world.get(n), idx, z3.BoolVal(present)))

    def write(self, k, v, interp=None):
        kt = self._kt(k)
        idx = list(self.keys) + kt
        sp = self.spec
        w = self.world
        if isinstance(sp, ValDict):
            n = self.prefix + ".#val"
            w.set(n, sto(w.get(n), idx, to_kind(v, sp.kind)))
        elif isinstance(sp, TupleDict):
            if not isinstance(v, tuple) or len(v) != len(sp.kinds):
                raise Unsupported("tuple of declared arity expected in TupleDict store")
            for i, kd in enumerate(sp.kinds):
                n = f"{self.prefix}.#{i}"
                w.set(n, sto(w.get(n), idx, to_kind(v[i], kd)))
        else:
            store_object(w, self.prefix, sp.cls, idx, v)
        self.set_dom(k, True)

    def clear(self):
        n = self.prefix + ".#dom"
        self.world.set(
            n, sto(self.world.get(n), list(self.keys), const_arr(self.spec.arity, z3.BoolVal(False), BOOL))
        )

    # --- equality of the whole dict (all columns at this path) between two worlds/paths
    def same_as(self, other):
        if self.prefix != other.prefix:
            raise Unsupported("comparing dicts of different slots")
        conj = []
        for n in self.world.columns_under(self.prefix):
            conj.append(sel(self.world.get(n), self.keys) == sel(other.world.get(n), other.keys))
        return z3.And(conj)


class Row:
    """An object stored in a Table: access path into the columns."""

    def __init__(self, world, prefix, cls, idx):
        self.world, self.prefix, self.cls, self.idx = world, prefix, cls, list(idx)

    def __repr__(self):
        return f"Row<{self.world.tag}:{self.prefix}{self.idx}>"

    @property
    def pycls(self):
        return self.cls.pycls

    def with_world(self, w):
        return Row(w, self.prefix, self.cls, self.idx)

    def has_field(self, name):
        return name in self.cls.fields

    def get_field(self, name):
        fs = self.cls.fields[name]
        col = f"{self.prefix}.{name}"
        if isinstance(fs, Scalar):
            return simplify_val(fs.kind, sel(self.world.get(col), self.idx))
        if isinstance(fs, Deque):
            return SeqRef(self.world, col, self.idx, fs.kind)
        return MapRef(self.world, col, fs, self.idx)

    def set_field(self, name, v):
        fs = self.cls.fields[name]
        col = f"{self.prefix}.{name}"
        w = self.world
        if isinstance(fs, Scalar):
            w.set(col, sto(w.get(col), self.idx, to_kind(v, fs.kind)))
        elif isinstance(fs, Deque):
            w.set(col, sto(w.get(col), self.idx, seq_value_term(v, fs.kind)))
        else:
            assign_dict(w, col, fs, self.idx, v)

    def same_key(self, other):
        return z3.And([a == b for a, b in zip(self.idx, other.idx)])


class SeqRef:
    """A deque/list of scalars held in a slot of a Row (z3 sequence)."""

    def __init__(self, world, col, idx, kind):
        self.world, self.col, self.idx, self.kind = world, col, list(idx), kind

    def term(self):
        return sel(self.world.get(self.col), self.idx)

    def set_term(self, t):
        self.world.set(self.col, sto(self.world.get(self.col), self.idx, t))

    def with_world(self, w):
        return SeqRef(w, self.col, self.idx, self.kind)


def seq_value_term(v, kind):
    from .values import SeqVal

    if isinstance(v, SeqVal):
        return v.term
    if isinstance(v, SeqRef):
        return v.term()
    if isinstance(v, (list, tuple)) or type(v).__name__ == "deque":
        items = list(v)
        sort = z3.SeqSort(KIND_SORT[kind])
        t = z3.Empty(sort)
        for it in items:
            t = z3.Concat(t, z3.Unit(to_kind(it, kind))) if items else t
        return t
    raise Unsupported(f"cannot store {type(v).__name__} into a sequence slot")


def assign_dict(world, col, spec, idx, v):
    """`row.slot = <dict value>`: only empty / concrete-keyed fresh dicts may be installed."""
    from .values import Obj

    n = col + ".#dom"
    if isinstance(v, MapRef):
        if v.prefix == col and v.world is not world:
            # copy of the same slot from another world (e.g. restoring): copy all columns
            for c in world.columns_under(col):
                world.set(c, sto(world.get(c), idx, sel(v.world.get(c), v.keys)))
            return
        raise Unsupported("storing a dict that lives in another slot (ownership discipline)")
    if isinstance(v, dict):
        world.set(n, sto(world.get(n), idx, const_arr(spec.arity, z3.BoolVal(False), BOOL)))
        m = MapRef(world, col, spec, idx)
        for k, val in v.items():
            m.write(k, val)
        return
    raise Unsupported(f"cannot install {type(v).__name__} into dict slot {col}")


def store_object(world, prefix, cls, idx, v):
    """Copy a freshly constructed transient object into its slot (by value)."""
    from .values import Obj

    if isinstance(v, Row):
        raise Unsupported("storing an object that already lives in a slot (ownership discipline)")
    if isinstance(v, Obj):
        if getattr(v, "moved", False):
            raise Unsupported("object stored into a second slot (ownership discipline)")
        fields = v.fields
        v.moved = True
    elif isinstance(v, dict) and cls.kind == "rec":
        fields = v
    else:
        raise Unsupported(f"cannot store {type(v).__name__} as {cls.name}")
    for fname, fs in cls.fields.items():
        if fname not in fields:
            raise Unsupported(f"object stored as {cls.name} lacks field {fname}")
        col = f"{prefix}.{fname}"
        val = fields[fname]
        if isinstance(fs, Scalar):
            world.set(col, sto(world.get(col), idx, to_kind(val, fs.kind)))
        elif isinstance(fs, Deque):
            world.set(col, sto(world.get(col), idx, seq_value_term(val, fs.kind)))
        else:
            assign_dict(world, col, fs, idx, val)
    extra = set(fields) - set(cls.fields)
    if extra:
        raise Unsupported(f"object stored as {cls.name} has undeclared fields {sorted(extra)}")
