"""Driver: enumerate the paths of one function under contract and collect its obligations."""
from __future__ import annotations

import hashlib
import importlib
import os
import sys
import time
import traceback

import z3

from . import ops
from .contract import NS, assert_value, assume_value, snapshot_state
from .core import Ctx, EngineError, ExcVal, PathDead, PyRaise, Unsupported
from .interp import CutPath, Interp


def repo_root():
    return os.path.realpath(os.environ.get("VERIF_REPO", "/repo"))


def verif_root():
    return os.path.realpath(os.path.join(os.path.dirname(__file__), ".."))


def ensure_repo_on_path():
    r = repo_root()
    if sys.path[0] != r:
        sys.path.insert(0, r)
    m = sys.modules.get("mysensors")
    if m is not None and not os.path.realpath(m.__file__).startswith(r + os.sep):
        raise EngineError(f"mysensors already imported from {m.__file__}, expected {r}")


def resolve_target(target):
    modname, qual = target.split(":")
    mod = importlib.import_module(modname)
    obj = mod
    parts = qual.split(".")
    for i, p in enumerate(parts):
        if isinstance(obj, type) and p in obj.__dict__:
            obj = obj.__dict__[p]
        else:
            obj = getattr(obj, p)
    if isinstance(obj, (staticmethod, classmethod)):
        obj = obj.__func__
    if isinstance(obj, property):
        obj = obj.fget
    return obj


_REQ_CACHE = {}


class PathRecord:
    __slots__ = ("decisions", "outcome", "detail", "trace", "n_obligations")

    def __init__(self, decisions, outcome, detail, trace, n_obl):
        self.decisions = decisions
        self.outcome = outcome
        self.detail = detail
        self.trace = trace
        self.n_obligations = n_obl


class TaskResult:
    def __init__(self, name, target):
        self.name = name
        self.target = target
        self.obligations = []
        self.paths = []
        self.undecided = []  # (where, reason)
        self.errors = []
        self.inlined = set()
        self.wall = 0.0
        self.source_hash = None
        self.source_span = None
        self.reached_post = 0
        self.unknown_branches = 0


def default_roots():
    return [os.path.join(repo_root(), "mysensors"), os.path.join(verif_root(), "contracts"), os.path.join(verif_root(), "spec")]


class Harness:
    """What a contract's `setup` gets: helpers to build the symbolic pre-state."""

    def __init__(self, it: Interp, config):
        self.it = it
        self.ctx = it.ctx
        self.config = config

    def sym(self, kind, hint):
        return self.ctx.fresh(kind, hint)


def run_contract(cc, config=None, max_paths=20000, name=None, extra_roots=(), budget_s=600, worklist=None, slice_s=None):
    """Explore every path of the contract's target under `config`."""
    ensure_repo_on_path()
    config = dict(config or {})
    target = cc.target
    suffix = ("[" + ",".join(f"{k}={v}" for k, v in sorted(config.items())) + "]") if config else ""
    tname = (name or target.split(":")[1]) + suffix
    res = TaskResult(tname, target)
    func = resolve_target(target) if not getattr(cc, "lemma", False) else None
    t0 = time.time()
    worklist = [list(w) for w in worklist] if worklist else [[]]
    res.leftover = []
    seen = 0
    roots = default_roots() + list(extra_roots) + list(getattr(cc, "extra_roots", ()))
    while worklist:
        if slice_s is not None and seen > 0 and time.time() - t0 > slice_s:
            # time slice used up: hand the unexplored subtrees back to the scheduler
            res.leftover = worklist
            break
        if time.time() - t0 > budget_s:
            res.undecided.append((tname, f"path exploration budget of {budget_s}s exceeded"))
            break
        dec = worklist.pop()
        seen += 1
        if seen > max_paths:
            res.undecided.append((tname, f"more than {max_paths} paths"))
            break
        ctx = Ctx(dec)
        it = Interp(ctx, roots)
        try:
            from contracts.trusted import MODULE_CACHES

            it.module_caches.update(MODULE_CACHES)
        except ImportError:
            pass
        it.task_name = tname
        outcome, detail = "ok", ""
        try:
            _run_one(cc, func, it, ctx, config, res, tname)
        except PathDead:
            outcome = "dead"
        except CutPath:
            outcome = "cut"
        except Unsupported as u:
            outcome, detail = "undecided", str(u)
            res.undecided.append((tname, str(u)))
        except PyRaise as pr:
            outcome, detail = "error", f"exception escaped the harness: {pr.exc!r}"
            res.errors.append((tname, detail))
        except EngineError as e:
            outcome, detail = "error", str(e)
            res.errors.append((tname, str(e)))
        except RecursionError:
            outcome, detail = "undecided", "recursion limit"
            res.undecided.append((tname, "recursion limit"))
        except Exception as e:  # pylint: disable=broad-except
            outcome, detail = "error", f"{type(e).__name__}: {e}"
            res.errors.append((tname, detail + "\n" + traceback.format_exc(limit=6)))
        worklist.extend(ctx.alternatives)
        res.unknown_branches += ctx.unknown_branches
        if outcome in ("ok", "cut"):
            res.obligations.extend(ctx.obligations)
        elif outcome == "dead":
            # obligations emitted before the path died stay valid only if the path condition at
            # that point was satisfiable; they carry their own hypotheses, so keep them
            res.obligations.extend(ctx.obligations)
        res.paths.append(PathRecord(list(ctx.decisions), outcome, detail, list(ctx.trace), len(ctx.obligations)))
        for k in it.inline_log:
            res.inlined.add(k)
    res.wall = time.time() - t0
    if func is not None:
        try:
            si = Interp(Ctx(), roots).src
            txt = si.source_text(func)
            res.source_hash = hashlib.sha256(txt.encode()).hexdigest()[:16]
            res.source_span = si.source_span(func)
        except Exception:  # pylint: disable=broad-except
            pass
    return res


def _ensures_items(cc):
    e = cc.__dict__.get("ensures")
    if e is None:
        return []
    if isinstance(e, dict):
        return list(e.items())
    if isinstance(e, staticmethod):
        e = e.__func__
    return [("post", e)]


def _run_one(cc, func, it, ctx, config, res, tname):
    h = Harness(it, config)
    setup = cc.__dict__["setup"]
    setup = setup.__func__ if isinstance(setup, staticmethod) else setup
    built = setup(h)
    if len(built) == 2:
        args, kwargs = built
        env = {}
    else:
        args, kwargs, env = built
    it.env.update(env)
    env = it.env
    for key, lc in (cc.__dict__.get("loops") or {}).items():
        it.loop_contracts[key] = lc
    # ---- requires
    req = cc.__dict__.get("requires")
    if req is not None:
        req = req.__func__ if isinstance(req, staticmethod) else req
        ctx.mode = "assume"
        ckey = (id(cc), repr(sorted(config.items())), tuple(ctx.decisions[: ctx.di]))
        cached = _REQ_CACHE.get(ckey) if getattr(cc, "cache_requires", True) else None
        if cached is not None and cached["names"] == dict(ctx.names) and cached["npc"] == len(ctx.pc):
            for f in cached["facts"]:
                ctx.pc.append(f)
            ctx.solver.add(*cached["facts"]) if cached["facts"] else None
            ctx.universals.extend(cached["universals"])
            for r, ts in cached["index"].items():
                for t in ts:
                    ctx.add_index_term(r, t)
            ctx.names = dict(cached["names_after"])
            ctx._dirty = True
            if cached["lits"] is not None:
                ctx._lits_done = cached["lits"]
            lbk = getattr(ctx, "_lawbook", None)
            if lbk is None:
                from .laws import lawbook

                lbk = lawbook(ctx)
            lbk.seen |= cached["seen"]
        else:
            names0, npc0, nu0 = dict(ctx.names), len(ctx.pc), len(ctx.universals)
            idx0 = {r: len(v_) for r, v_ in ctx.index_terms.items()}
            seen0 = set(getattr(getattr(ctx, "_lawbook", None), "seen", ()))
            ndec0 = ctx.di
            v = it.call(req, list(args), dict(kwargs))
            assume_value(it, v)
            if ctx.di == ndec0 and getattr(cc, "cache_requires", True):
                _REQ_CACHE[ckey] = {
                    "names": names0,
                    "npc": npc0,
                    "facts": list(ctx.pc[npc0:]),
                    "universals": list(ctx.universals[nu0:]),
                    "index": {r: list(v_[idx0.get(r, 0):]) for r, v_ in ctx.index_terms.items()},
                    "names_after": dict(ctx.names),
                    "lits": getattr(ctx, "_lits_done", None),
                    "seen": set(getattr(getattr(ctx, "_lawbook", None), "seen", ())) - seen0,
                }
    # vacuity: the precondition must be satisfiable on this path (checked by the solver later)
    ctx.oblige(f"{tname}.requires-reachable", z3.BoolVal(False), kind="vacuity")
    env_keys = [k for k in env if not k.startswith("cfg_") and k not in ("inbound", "inbound_label")]
    old_vals, old_G, old_world = snapshot_state(it, values=list(args) + list(kwargs.values()) + [env[k] for k in env_keys])
    old = NS({})
    pnames = _param_names(func, it, cc)
    for n, v in zip(pnames, old_vals):
        old.d[n] = v
    old.d["G"] = old_G
    old.d["world"] = old_world
    nargs = len(args) + len(kwargs)
    for k, v in zip(env_keys, old_vals[nargs:]):
        old.d.setdefault(k, v)
        old.d.setdefault(k + "_now", env[k])
    # ---- body
    ctx.mode = "exec"
    if func is not None:
        it.verifying = (getattr(func, "__module__", None), func.__qualname__)
    exc = None
    result = None
    try:
        if getattr(cc, "lemma", False):
            body = cc.__dict__["body"]
            body = body.__func__ if isinstance(body, staticmethod) else body
            result = it.call(body, list(args), dict(kwargs))
        else:
            result = it.call_function(func, list(args), dict(kwargs))
        if type(result).__name__ == "Coro":
            result = it.run_coro(result)
    except PyRaise as pr:
        exc = pr.exc
    it.verifying = None
    ctx.mode = "assert"
    old.d["G_now"] = NS(ctx.ghost)
    if exc is not None:
        allowed = cc.__dict__.get("raises") or {}
        matched = None
        for ecls, cond in (allowed.items() if isinstance(allowed, dict) else [(c, True) for c in allowed]):
            if issubclass(exc.cls, ecls):
                matched = (ecls, cond)
                break
        site = exc.site
        if matched is None:
            ctx.oblige(
                f"{tname}.raises",
                z3.BoolVal(False),
                kind="raises",
                site=site,
                meta={"exception": exc.cls.__name__, "site": site},
            )
            return
        ecls, cond = matched
        if cond is not True and cond is not None:
            v = it.call(cond, [old] + list(args), dict(kwargs))
            assert_value(it, f"{tname}.raises[{ecls.__name__}]", v, kind="raises")
        ep = cc.__dict__.get("exc_ensures")
        if ep is not None:
            items = ep.items() if isinstance(ep, dict) else [("exc-post", ep)]
            for nm, fn in items:
                v = it.call(fn, [old] + list(args) + [exc], dict(kwargs))
                assert_value(it, f"{tname}.{nm}", v, kind="exc-post")
        return
    res.reached_post += 1
    ctx.oblige(f"{tname}.post-reachable", z3.BoolVal(False), kind="vacuity")
    items = _ensures_items(cc)
    if not items:
        return
    # Clauses are first evaluated as formulas (no forking): all of them on this one path.  A clause
    # that needs to branch (or whose evaluation can raise) falls back to exec mode, one such clause
    # per path (clauses fork independently: sum, not product, of their paths).
    fallback = []
    only = cc.__dict__.get("clause_when") or {}
    for nm, fn in items:
        cond = only.get(nm)
        if cond is not None and not cond(config):
            continue  # the clause is guarded by a message kind this configuration excludes: trivially true
        fn = fn.__func__ if isinstance(fn, staticmethod) else fn
        ctx.push_scope()
        it.pure_cache = {}
        it.formula_mode = True
        lb_seen = set(getattr(getattr(ctx, "_lawbook", None), "seen", ()))
        try:
            v = it.call(fn, [old] + list(args) + [result], dict(kwargs))
            assert_value(it, f"{tname}.{nm}", v, kind="post")
        except (Unsupported, PyRaise) as e:
            fallback.append((nm, fn))
        finally:
            it.formula_mode = False
            ctx.pop_scope()
            it.pure_cache = {}
            if getattr(ctx, "_lawbook", None) is not None:
                # law instances made inside the scope were dropped with its facts: forget their memo
                ctx._lawbook.seen = lb_seen
    if not fallback:
        return
    k = ctx.choose([z3.BoolVal(True)] * len(fallback), labels=[nm for nm, _ in fallback], site="ensures") if len(fallback) > 1 else 0
    nm, fn = fallback[k]
    v = it.call(fn, [old] + list(args) + [result], dict(kwargs))
    assert_value(it, f"{tname}.{nm}", v, kind="post")


def _param_names(func, it, cc):
    names = cc.__dict__.get("params")
    if names:
        return list(names)
    if func is None:
        return []
    node = it.src.func_node(func)
    a = node.args
    return [p.arg for p in a.posonlyargs + a.args] + [p.arg for p in a.kwonlyargs]
