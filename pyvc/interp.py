"""AST interpreter: executes the *real* source of repository functions over symbolic values.

The same interpreter runs concretely (all inputs plain Python values) and symbolically.
Anything outside the supported subset raises Unsupported -> the obligation is undecided.
"""
from __future__ import annotations

import ast
import builtins
import enum
import os
import types

import z3

from . import ops
from .core import (
    SV,
    Ctx,
    EngineError,
    ExcVal,
    PathDead,
    PyRaise,
    Unsupported,
)
from .heap import MapRef, Row, SeqRef
from .values import BoundMethod, DictView, IFunc, LazyMap, ModelFn, Obj, Opaque, SeqVal


PURE_MODULES = ("spec.wire", "spec.api", "spec.prims")


def _cache_key(key, args):
    out = [key]
    for a in args:
        if isinstance(a, SV):
            out.append((a.kind, a.term.get_id()))
        elif isinstance(a, (int, str, bool, type(None))):
            out.append(("c", type(a).__name__, a))
        else:
            return None
    return tuple(out)


class ReturnEx(Exception):
    def __init__(self, value):
        self.value = value


class BreakEx(Exception):
    pass


class ContinueEx(Exception):
    pass


class CutPath(Exception):
    """The path ends here by construction (e.g. after a loop body was checked)."""


class SuperProxy:
    _pyvc_symbolic = True
    def __init__(self, self_val, defcls):
        self.self_val = self_val
        self.defcls = defcls


class Frame:
    def __init__(self, name, globs, parent=None, defcls=None, func=None):
        self.name = name
        self.locals = {}
        self.globals = globs
        self.parent = parent
        self.defcls = defcls
        self.func = func
        self.first_arg = None
        self.loop_ordinal = 0
        self.call_ordinal = 0

    def lookup(self, name):
        f = self
        while f is not None:
            if name in f.locals:
                return f.locals[name]
            f = f.parent
        if name in self.globals:
            return self.globals[name]
        if hasattr(builtins, name):
            return getattr(builtins, name)
        raise PyRaise(ExcVal(NameError, (name,)))


# ------------------------------------------------------------------ source index
_PARSE_CACHE = {}


class SourceIndex:
    def __init__(self):
        self.files = _PARSE_CACHE
        self.hashes = {}

    def parse(self, filename):
        if filename not in self.files:
            with open(filename, "r", encoding="utf-8") as fh:
                src = fh.read()
            tree = ast.parse(src, filename)
            table = {}
            for node in ast.walk(tree):
                if isinstance(node, (ast.FunctionDef, ast.AsyncFunctionDef)):
                    first = min([node.lineno] + [d.lineno for d in node.decorator_list])
                    table[(node.name, first)] = node
                    table[(node.name, node.lineno)] = node
                elif isinstance(node, ast.Lambda):
                    table.setdefault(("<lambda>", node.lineno), node)
                    table.setdefault(("<lambdas>", node.lineno), []).append(node)
            self.files[filename] = (tree, table, src)
        return self.files[filename]

    def func_node(self, func):
        code = func.__code__
        fn = code.co_filename
        _tree, table, _src = self.parse(fn)
        node = table.get((code.co_name, code.co_firstlineno))
        if code.co_name == "<lambda>":
            cands = table.get(("<lambdas>", code.co_firstlineno)) or []
            if len(cands) > 1:
                # several lambdas start on this line: take the one whose body holds the first instruction
                pos = next(((l, c) for (l, _e, c, ec) in code.co_positions() if l is not None and c is not None and ec is not None and ec > c), None)
                best = None
                for cand in cands:
                    b = cand.body
                    if pos is not None and (b.lineno, b.col_offset) <= pos <= (b.end_lineno, b.end_col_offset):
                        if best is None or (b.end_lineno - b.lineno, b.end_col_offset - b.col_offset) < (
                            best.body.end_lineno - best.body.lineno,
                            best.body.end_col_offset - best.body.col_offset,
                        ):
                            best = cand
                if best is None:
                    raise Unsupported(f"several lambdas on line {code.co_firstlineno} of {fn}: cannot tell which one this is")
                node = best
        if node is None:
            raise Unsupported(f"no source for {func.__qualname__} at {fn}:{code.co_firstlineno}")
        return node

    def source_span(self, func):
        node = self.func_node(func)
        return func.__code__.co_filename, node.lineno, node.end_lineno

    def source_text(self, func):
        node = self.func_node(func)
        src = self.files[func.__code__.co_filename][2]
        return ast.get_source_segment(src, node) or ""


class Interp:
    def __init__(self, ctx: Ctx, roots, world=None):
        self.ctx = ctx
        self.roots = [os.path.realpath(r) for r in roots]
        self.src = SourceIndex()
        self.models = {}  # id(real callable) -> ModelFn
        self.type_models = {}
        self.summaries = {}  # (module, qualname) -> callable(interp, func, args, kwargs) or None
        self.loop_contracts = {}  # (module, qualname, ordinal) -> LoopContract
        self.call_hooks = {}
        self.world = world
        self.stack = []
        self.max_depth = 40
        self.skip_logging = True
        self.inline_log = []  # functions executed in place
        self.verifying = None  # (module, qualname) of the function whose body is being verified
        self.attr_models = {}
        self.steps = 0
        self.max_steps = 400000
        self.write_log = None
        self.formula_mode = False
        self._run_async_now = False
        self.summary_log = []
        self.pure_cache = {}
        self.post_hooks = {}
        self.env = {}
        self._module_state = None  # id(container) -> "module:name" for module-/class-level containers of the code under contract
        self._module_state_n = -1
        self.module_caches = {}  # "module:name" -> checker(key, value): declared caches whose invariant is checked at every write
        from . import models

        models.install(self)

    # ------------------------------------------------------------ module-level state (frame condition)
    def module_state_name(self, obj):
        """name of the module-level (or class-level) container of the code under contract that `obj` is, or None"""
        import collections
        import sys

        if self._module_state is None or self._module_state_n != len(sys.modules):
            kinds = (dict, list, set, bytearray, collections.deque)
            repo = self.roots[0]
            table = {}
            for mname, m in list(sys.modules.items()):
                fn = getattr(m, "__file__", None)
                if not fn or not os.path.realpath(fn).startswith(repo + os.sep):
                    continue
                for k, v in list(vars(m).items()):
                    if k.startswith("__"):
                        continue
                    if isinstance(v, kinds):
                        table[id(v)] = f"{mname}:{k}"
                        if isinstance(v, dict):
                            for k2, v2 in list(v.items()):
                                if isinstance(v2, kinds):
                                    table.setdefault(id(v2), f"{mname}:{k}[{k2!r}]")
                    elif isinstance(v, type) and getattr(v, "__module__", None) == mname:
                        for k2, v2 in list(vars(v).items()):
                            if not k2.startswith("__") and isinstance(v2, kinds):
                                table[id(v2)] = f"{mname}:{v.__name__}.{k2}"
                                if isinstance(v2, dict):
                                    for k3, v3 in list(v2.items()):
                                        if isinstance(v3, kinds):
                                            table.setdefault(id(v3), f"{mname}:{v.__name__}.{k2}[{k3!r}]")
            self._module_state = table
            self._module_state_n = len(sys.modules)
        return self._module_state.get(id(obj))

    def guard_write(self, obj, node=None, key=None, value=None):
        """A function under contract is specified over its arguments and the gateway heap.  Writing a module- or
        class-level container makes later calls depend on earlier ones, which no per-call contract covers: unless
        the container is a declared cache whose invariant holds for this write, the write fails the frame
        obligation `frame.module-state` and the path ends there (the real object is never modified)."""
        name = self.module_state_name(obj)
        if name is None or not self.stack:
            return
        chk = self.module_caches.get(name)
        if chk is not None and key is not None and chk(key, value):
            return
        self.ctx.clause_kind = "frame"
        self.ctx.oblige(
            f"{getattr(self, 'task_name', '')}.frame.module-state".lstrip("."),
            z3.BoolVal(False),
            kind="frame",
            site=self.site(node) if node is not None else None,
            meta={"global": name, "writer": self.stack[-1].name},
        )
        raise CutPath()

    def hidden_state(self, name, node=None):
        self.ctx.clause_kind = "frame"
        self.ctx.oblige(
            f"{getattr(self, 'task_name', '')}.frame.instance-state".lstrip("."),
            z3.BoolVal(False),
            kind="frame",
            site=self.site(node) if node is not None else None,
            meta={"global": name, "writer": self.stack[-1].name if self.stack else None},
        )
        raise CutPath()

    # ------------------------------------------------------------ helpers
    def is_interpreted_func(self, f):
        if not isinstance(f, types.FunctionType):
            return False
        fn = os.path.realpath(f.__code__.co_filename)
        return any(fn.startswith(r + os.sep) or fn == r for r in self.roots)

    def is_interpreted_class(self, cls):
        if not isinstance(cls, type):
            return False
        mod = getattr(cls, "__module__", None)
        import sys

        m = sys.modules.get(mod)
        fn = getattr(m, "__file__", None)
        if not fn:
            return False
        fn = os.path.realpath(fn)
        return any(fn.startswith(r + os.sep) or fn == r for r in self.roots)

    def site(self, node):
        fr = self.stack[-1] if self.stack else None
        return f"{fr.name if fr else '?'}:{getattr(node, 'lineno', '?')}"

    def raise_(self, cls, *args, node=None):
        raise PyRaise(ExcVal(cls, args, site=self.site(node) if node is not None else None))

    def branch(self, cond, node=None):
        if isinstance(cond, bool):
            return cond
        if self.formula_mode:
            c = z3.simplify(cond)
            if z3.is_true(c):
                return True
            if z3.is_false(c):
                return False
            raise Unsupported(f"branch on a symbolic condition inside a quantified formula at {self.site(node)}")
        return self.ctx.branch(cond, site=self.site(node) if node is not None else None)

    def truth(self, v, node=None):
        t = ops.truth(self, v)
        return self.branch(t, node)

    # ------------------------------------------------------------ calls
    def call(self, fn, args=(), kwargs=None, node=None):
        kwargs = kwargs or {}
        self.steps += 1
        if self.steps > self.max_steps:
            raise Unsupported("step budget exceeded")
        if isinstance(fn, ModelFn):
            return fn.fn(self, list(args), dict(kwargs))
        if isinstance(fn, BoundMethod):
            return self.call_function(fn.func, [fn.self_val] + list(args), kwargs, defcls=fn.defcls, node=node)
        if isinstance(fn, IFunc):
            return self.call_function(fn, list(args), kwargs, defcls=fn.defcls, node=node)
        if isinstance(fn, types.FunctionType):
            return self.call_function(fn, list(args), kwargs, node=node)
        if isinstance(fn, types.MethodType):
            # bound method of a concrete object
            m = self.models.get(id(fn.__func__))
            if m is not None:
                return m.fn(self, [fn.__self__] + list(args), dict(kwargs))
            if self.is_interpreted_func(fn.__func__):
                return self.call_function(fn.__func__, [fn.__self__] + list(args), kwargs, node=node)
            return self.native_call(fn, args, kwargs, node)
        if isinstance(fn, Opaque):
            if fn.callable_contract is not None:
                return fn.callable_contract(self, fn, list(args), dict(kwargs))
            raise Unsupported(f"call of opaque value {fn.name}")
        if isinstance(fn, type):
            return self.instantiate(fn, list(args), kwargs, node)
        m = self.models.get(id(fn))
        if m is not None:
            return m.fn(self, list(args), dict(kwargs))
        tm = self.type_models.get(type(fn))
        if tm is not None:
            return tm(self, fn, list(args), dict(kwargs))
        if callable(fn):
            return self.native_call(fn, args, kwargs, node)
        if fn is None:
            self.raise_(TypeError, "'NoneType' object is not callable", node=node)
        raise Unsupported(f"call of {type(fn).__name__}")

    def native_call(self, fn, args, kwargs, node=None):
        m = self.models.get(id(fn))
        if m is not None:
            return m.fn(self, list(args), dict(kwargs))
        if getattr(fn, "__self__", None) is bytes and getattr(fn, "__name__", "") == "fromhex" and not ops.all_concrete(list(args)):
            # class methods of builtin types are fresh objects at every attribute access: matched by owner and name
            from .models import m_fromhex

            return m_fromhex(self, list(args), dict(kwargs))
        return self.raw_native(fn, args, kwargs, node)

    def raw_native(self, fn, args, kwargs, node=None):
        if any(isinstance(x, str) and x.startswith("/vfs/") for x in list(args) + list(kwargs.values())) and getattr(fn, "__module__", None) in ("posix", "nt", "os", "shutil", "genericpath"):
            # a path of the ghost file system handed to a real OS function: the real call would answer for the real
            # disk (FileNotFoundError), not for the modelled one
            raise Unsupported(f"no model for {getattr(fn, '__module__', '')}.{getattr(fn, '__qualname__', fn)} on the ghost file system")
        if not ops.all_concrete(list(args) + list(kwargs.values())):
            raise Unsupported(
                f"no model for {getattr(fn, '__module__', '')}.{getattr(fn, '__qualname__', fn)} with symbolic arguments"
            )
        try:
            return fn(*args, **kwargs)
        except Exception as exc:  # pylint: disable=broad-except
            raise PyRaise(ExcVal(type(exc), exc.args, site=self.site(node) if node is not None else None)) from None

    def instantiate(self, cls, args, kwargs, node=None):
        m = self.models.get(id(cls))
        if m is not None:
            return m.fn(self, args, kwargs)
        if isinstance(cls, type) and issubclass(cls, BaseException):
            return ExcVal(cls, args, site=self.site(node) if node is not None else None)
        if isinstance(cls, type) and issubclass(cls, enum.Enum):
            return ops.enum_call(self, cls, args, node)
        if self.is_interpreted_class(cls):
            obj = Obj(cls)
            init = self.class_lookup(cls, "__init__")
            if init is not None:
                klass, raw = init
                if isinstance(raw, types.FunctionType):
                    if self.is_interpreted_func(raw) or id(raw) in self.models:
                        self.call_function(raw, [obj] + list(args), kwargs, defcls=klass, node=node)
                    elif raw is object.__init__:
                        pass
                    else:
                        raise Unsupported(f"constructor {raw.__qualname__} has no source/model")
                elif raw is object.__init__ or getattr(raw, "__objclass__", None) is object:
                    if args or kwargs:
                        self.raise_(TypeError, f"{cls.__name__}() takes no arguments", node=node)
                else:
                    mm = self.models.get(id(raw))
                    if mm is None:
                        raise Unsupported(f"constructor slot {raw!r} of {cls.__name__}")
                    mm.fn(self, [obj] + list(args), dict(kwargs))
            return obj
        return self.native_call(cls, args, kwargs, node)

    def class_lookup(self, cls, name, after=None):
        mro = cls.__mro__
        start = 0
        if after is not None:
            start = mro.index(after) + 1
        for klass in mro[start:]:
            if name in klass.__dict__:
                return klass, klass.__dict__[name]
        return None

    def call_function(self, func, args, kwargs, defcls=None, node=None):
        key = (getattr(func, "__module__", None) if not isinstance(func, IFunc) else func.globals.get("__name__"), func.__qualname__)
        mm = self.models.get(id(func))
        if mm is not None:
            return mm.fn(self, list(args), dict(kwargs))
        ck = None
        if key[0] in PURE_MODULES and not kwargs:
            ck = _cache_key(key, args)
            if ck is not None and ck in self.pure_cache:
                return self.pure_cache[ck]
        if ck is not None:
            rv = self._call_function_uncached(func, args, kwargs, defcls, node, key)
            self.pure_cache[ck] = rv
            return rv
        return self._call_function_uncached(func, args, kwargs, defcls, node, key)

    def _call_function_uncached(self, func, args, kwargs, defcls, node, key):
        summ = self.summaries.get(key)
        if summ is not None and key != self.verifying_key():
            r = summ(self, func, list(args), dict(kwargs))
            if not (type(r) is object):  # NO_SUMMARY sentinel -> execute the body in place
                self.summary_log.append(key)
                return r
        if isinstance(func, IFunc):
            fnode = func.node
            globs = func.globals
            parent = func.frame
            defaults = func.defaults
            kwdefaults = func.kwdefaults
        else:
            if not self.is_interpreted_func(func):
                return self.native_call(func, args, kwargs, node)
            fnode = self.src.func_node(func)
            globs = func.__globals__
            parent = None
            defaults = list(func.__defaults__ or ())
            kwdefaults = dict(func.__kwdefaults__ or {})
            if func.__closure__:
                # real closure of a real function: expose the cells as a parent frame
                parent = Frame("<closure>", globs)
                for nm, cell in zip(func.__code__.co_freevars, func.__closure__):
                    try:
                        parent.locals[nm] = cell.cell_contents
                    except ValueError:
                        pass
            if defcls is None and "." in func.__qualname__:
                defcls = self._defcls_of(func)
        is_async = isinstance(fnode, ast.AsyncFunctionDef)
        if is_async and not self._run_async_now:
            from .values import Coro

            return Coro(func, args, kwargs, defcls)
        self._run_async_now = False
        if len(self.stack) > self.max_depth:
            raise Unsupported("call depth exceeded (recursion?)")
        frame = Frame(func.__qualname__, globs, parent=parent, defcls=defcls, func=func)
        self.bind(frame, fnode, args, kwargs, defaults, kwdefaults, node)
        if args:
            frame.first_arg = args[0]
        self.inline_log.append(key)
        self.stack.append(frame)
        try:
            if isinstance(fnode, ast.Lambda):
                return self.eval(fnode.body, frame)
            rv = None
            try:
                self.exec_block(fnode.body, frame)
            except ReturnEx as r:
                rv = r.value
            ph = self.post_hooks.get(key)
            if ph is not None:
                ph(self, list(args), rv)
            return rv
        finally:
            self.stack.pop()

    def run_coro(self, coro, node=None):
        if coro.started:
            raise Unsupported("coroutine awaited twice")
        coro.started = True
        self._run_async_now = True
        try:
            return self.call_function(coro.func, coro.args, coro.kwargs, defcls=coro.defcls, node=node)
        finally:
            self._run_async_now = False

    def verifying_key(self):
        return self.verifying

    def _defcls_of(self, func):
        mod = __import__("sys").modules.get(func.__module__)
        obj = mod
        parts = func.__qualname__.split(".")[:-1]
        try:
            for p in parts:
                if p == "<locals>":
                    return None
                obj = getattr(obj, p)
        except AttributeError:
            return None
        return obj if isinstance(obj, type) else None

    def bind(self, frame, fnode, args, kwargs, defaults, kwdefaults, node=None):
        a = fnode.args
        params = [p.arg for p in a.posonlyargs + a.args]
        npos = len(params)
        args = list(args)
        kwargs = dict(kwargs)
        fname = frame.name
        if len(args) > npos and a.vararg is None:
            self.raise_(
                TypeError,
                f"{fname}() takes {npos} positional arguments but {len(args)} were given",
                node=node,
            )
        for i, p in enumerate(params):
            if i < len(args):
                if p in kwargs:
                    self.raise_(TypeError, f"{fname}() got multiple values for argument '{p}'", node=node)
                frame.locals[p] = args[i]
            elif p in kwargs:
                frame.locals[p] = kwargs.pop(p)
            else:
                di = i - (npos - len(defaults))
                if di >= 0:
                    frame.locals[p] = defaults[di]
                else:
                    self.raise_(TypeError, f"{fname}() missing required positional argument: '{p}'", node=node)
        if a.vararg is not None:
            frame.locals[a.vararg.arg] = tuple(args[npos:])
        for p in a.kwonlyargs:
            if p.arg in kwargs:
                frame.locals[p.arg] = kwargs.pop(p.arg)
            elif p.arg in kwdefaults:
                frame.locals[p.arg] = kwdefaults[p.arg]
            else:
                self.raise_(TypeError, f"{fname}() missing required keyword-only argument: '{p.arg}'", node=node)
        if a.kwarg is not None:
            frame.locals[a.kwarg.arg] = kwargs
        elif kwargs:
            k = sorted(kwargs)[0]
            self.raise_(TypeError, f"{fname}() got an unexpected keyword argument '{k}'", node=node)

    # ------------------------------------------------------------ statements
    def exec_block(self, stmts, frame):
        for s in stmts:
            self.exec_stmt(s, frame)

    def exec_stmt(self, node, frame):
        self.steps += 1
        if self.steps > self.max_steps:
            raise Unsupported("step budget exceeded")
        m = getattr(self, "stmt_" + type(node).__name__, None)
        if m is None:
            raise Unsupported(f"statement {type(node).__name__} at {self.site(node)}")
        return m(node, frame)

    def stmt_Expr(self, node, frame):
        if isinstance(node.value, ast.Constant):
            return  # docstring
        self.eval(node.value, frame)

    def stmt_Pass(self, node, frame):
        return

    def stmt_Return(self, node, frame):
        raise ReturnEx(self.eval(node.value, frame) if node.value is not None else None)

    def stmt_Break(self, node, frame):
        raise BreakEx()

    def stmt_Continue(self, node, frame):
        raise ContinueEx()

    def stmt_Assign(self, node, frame):
        v = self.eval(node.value, frame)
        for t in node.targets:
            self.assign(t, v, frame)

    def stmt_AnnAssign(self, node, frame):
        if node.value is not None:
            self.assign(node.target, self.eval(node.value, frame), frame)

    def stmt_AugAssign(self, node, frame):
        tgt = node.target
        if isinstance(tgt, ast.Name):
            cur = frame.lookup(tgt.id)
        elif isinstance(tgt, ast.Attribute):
            cur = self.getattr(self.eval(tgt.value, frame), tgt.attr, tgt)
        elif isinstance(tgt, ast.Subscript):
            cur = self.getitem(self.eval(tgt.value, frame), self.eval_index(tgt.slice, frame), tgt)
        else:
            raise Unsupported("augmented assignment target")
        v = ops.binop(self, type(node.op).__name__, cur, self.eval(node.value, frame), node)
        self.assign(tgt, v, frame)

    def assign(self, tgt, v, frame):
        if isinstance(tgt, ast.Name):
            self._assign_name(tgt.id, v, frame)
        elif isinstance(tgt, ast.Attribute):
            self.setattr(self.eval(tgt.value, frame), tgt.attr, v, tgt)
        elif isinstance(tgt, ast.Subscript):
            self.setitem(self.eval(tgt.value, frame), self.eval_index(tgt.slice, frame), v, tgt)
        elif isinstance(tgt, (ast.Tuple, ast.List)):
            items = ops.unpack(self, v, len(tgt.elts), tgt)
            for t, x in zip(tgt.elts, items):
                self.assign(t, x, frame)
        else:
            raise Unsupported(f"assignment target {type(tgt).__name__}")

    def _assign_name(self, name, v, frame):
        # nonlocal declared?
        nl = getattr(frame, "nonlocals", None)
        if nl and name in nl:
            f = frame.parent
            while f is not None:
                if name in f.locals:
                    f.locals[name] = v
                    return
                f = f.parent
        frame.locals[name] = v

    def stmt_Nonlocal(self, node, frame):
        frame.nonlocals = set(getattr(frame, "nonlocals", set())) | set(node.names)

    def stmt_Global(self, node, frame):
        # rebinding a module-level name from inside a function is a write of module-level state
        self.ctx.clause_kind = "frame"
        self.ctx.oblige(
            f"{getattr(self, 'task_name', '')}.frame.module-state".lstrip("."),
            z3.BoolVal(False),
            kind="frame",
            site=self.site(node),
            meta={"global": f"{frame.globals.get('__name__')}:{','.join(node.names)}", "writer": frame.name},
        )
        raise CutPath()

    def stmt_If(self, node, frame):
        if self.truth(self.eval(node.test, frame), node):
            self.exec_block(node.body, frame)
        else:
            self.exec_block(node.orelse, frame)

    def stmt_Raise(self, node, frame):
        if node.exc is None:
            cur = getattr(frame, "handling", None)
            if cur is None:
                self.raise_(RuntimeError, "No active exception to re-raise", node=node)
            raise PyRaise(cur)
        e = self.eval(node.exc, frame)
        if isinstance(e, type) and issubclass(e, BaseException):
            e = ExcVal(e, (), site=self.site(node))
        if not isinstance(e, ExcVal):
            raise Unsupported("raise of a non-exception value")
        if node.cause is not None:
            e.cause = self.eval(node.cause, frame)
        if e.site is None:
            e.site = self.site(node)
        raise PyRaise(e)

    def stmt_Assert(self, node, frame):
        if not self.truth(self.eval(node.test, frame), node):
            self.raise_(AssertionError, node=node)

    def stmt_Try(self, node, frame):
        try:
            self._try_core(node, frame)
        except (PyRaise, ReturnEx, BreakEx, ContinueEx):
            if node.finalbody:
                self.exec_block(node.finalbody, frame)
            raise
        if node.finalbody:
            self.exec_block(node.finalbody, frame)

    def _try_core(self, node, frame):
        try:
            self.exec_block(node.body, frame)
        except PyRaise as pr:
            exc = pr.exc
            for h in node.handlers:
                if self.exc_matches(exc, h.type, frame):
                    if h.name:
                        frame.locals[h.name] = exc
                    prev = getattr(frame, "handling", None)
                    frame.handling = exc
                    try:
                        self.exec_block(h.body, frame)
                    finally:
                        frame.handling = prev
                    return
            raise
        self.exec_block(node.orelse, frame)

    def exc_matches(self, exc, type_node, frame):
        if type_node is None:
            return True
        t = self.eval(type_node, frame)
        classes = t if isinstance(t, tuple) else (t,)
        for c in classes:
            if not (isinstance(c, type) and issubclass(c, BaseException)):
                raise Unsupported("except clause with a non-class")
            if issubclass(exc.cls, c):
                return True
        return False

    def stmt_With(self, node, frame):
        mgrs = []
        for item in node.items:
            m = self.eval(item.context_expr, frame)
            enter = self.getattr(m, "__enter__", node)
            v = self.call(enter, [], {}, node)
            if item.optional_vars is not None:
                self.assign(item.optional_vars, v, frame)
            mgrs.append(m)
        try:
            self.exec_block(node.body, frame)
        except PyRaise as pr:
            for m in reversed(mgrs):
                ex = self.getattr(m, "__exit__", node)
                self.call(ex, [pr.exc.cls, pr.exc, None], {}, node)
            raise
        except (ReturnEx, BreakEx, ContinueEx):
            for m in reversed(mgrs):
                ex = self.getattr(m, "__exit__", node)
                self.call(ex, [None, None, None], {}, node)
            raise
        else:
            for m in reversed(mgrs):
                ex = self.getattr(m, "__exit__", node)
                self.call(ex, [None, None, None], {}, node)

    stmt_AsyncWith = stmt_With

    def stmt_FunctionDef(self, node, frame):
        f = self.make_ifunc(node, frame, node.name, is_async=isinstance(node, ast.AsyncFunctionDef))
        for dec in reversed(node.decorator_list):
            d = self.eval(dec, frame)
            f = self.call(d, [f], {}, node)
        frame.locals[node.name] = f

    stmt_AsyncFunctionDef = stmt_FunctionDef

    def make_ifunc(self, node, frame, name, is_async=False):
        f = IFunc(node, frame, name, frame.globals, defcls=frame.defcls, is_async=is_async)
        a = node.args
        f.defaults = [self.eval(d, frame) for d in a.defaults]
        f.kwdefaults = {
            p.arg: self.eval(d, frame) for p, d in zip(a.kwonlyargs, a.kw_defaults) if d is not None
        }
        f.__qualname__ = f"{frame.name}.<locals>.{name}"
        return f

    def stmt_Delete(self, node, frame):
        for t in node.targets:
            if isinstance(t, ast.Subscript):
                self.delitem(self.eval(t.value, frame), self.eval_index(t.slice, frame), t)
            elif isinstance(t, ast.Name):
                frame.locals.pop(t.id, None)
            else:
                raise Unsupported("del target")

    def stmt_Import(self, node, frame):
        for al in node.names:
            mod = __import__(al.name)
            frame.locals[(al.asname or al.name).split(".")[0]] = mod

    def stmt_ImportFrom(self, node, frame):
        raise Unsupported("import inside function")

    # ---- loops
    def stmt_While(self, node, frame):
        from . import loops

        return loops.exec_while(self, node, frame)

    def stmt_For(self, node, frame):
        from . import loops

        return loops.exec_for(self, node, frame)

    stmt_AsyncFor = stmt_For

    # ------------------------------------------------------------ expressions
    def eval(self, node, frame):
        m = getattr(self, "expr_" + type(node).__name__, None)
        if m is None:
            raise Unsupported(f"expression {type(node).__name__} at {self.site(node)}")
        return m(node, frame)

    def eval_index(self, node, frame):
        if isinstance(node, ast.Slice):
            return slice(
                self.eval(node.lower, frame) if node.lower is not None else None,
                self.eval(node.upper, frame) if node.upper is not None else None,
                self.eval(node.step, frame) if node.step is not None else None,
            )
        return self.eval(node, frame)

    def expr_Constant(self, node, frame):
        return node.value

    def expr_Name(self, node, frame):
        if node.id == "super":
            return ModelFn("super", lambda it, a, k: self._super(frame, a))
        return frame.lookup(node.id)

    def _super(self, frame, args):
        f = frame
        while f is not None and (f.defcls is None or f.first_arg is None):
            f = f.parent
        if f is None:
            raise Unsupported("super() outside a method")
        return SuperProxy(f.first_arg, f.defcls)

    def expr_Attribute(self, node, frame):
        return self.getattr(self.eval(node.value, frame), node.attr, node)

    def expr_Subscript(self, node, frame):
        return self.getitem(self.eval(node.value, frame), self.eval_index(node.slice, frame), node)

    def expr_Tuple(self, node, frame):
        out = []
        for e in node.elts:
            if isinstance(e, ast.Starred):
                out.extend(ops.iter_concrete(self, self.eval(e.value, frame), e))
            else:
                out.append(self.eval(e, frame))
        return tuple(out)

    def expr_List(self, node, frame):
        return list(self.expr_Tuple(node, frame))

    def expr_Set(self, node, frame):
        return ops.make_set(self, [self.eval(e, frame) for e in node.elts])

    def expr_Dict(self, node, frame):
        d = {}
        for k, v in zip(node.keys, node.values):
            if k is None:
                other = self.eval(v, frame)
                if not isinstance(other, dict):
                    raise Unsupported("** of non-concrete dict in display")
                d.update(other)
            else:
                kk = self.eval(k, frame)
                if isinstance(kk, SV):
                    raise Unsupported("dict display with symbolic key")
                d[kk] = self.eval(v, frame)
        return d

    def expr_JoinedStr(self, node, frame):
        parts = []
        for v in node.values:
            if isinstance(v, ast.Constant):
                parts.append(v.value)
            else:
                val = self.eval(v.value, frame)
                if v.format_spec is not None:
                    if ops.all_concrete([val]):
                        spec = self.eval(v.format_spec, frame)
                        parts.append(format(val, spec))
                        continue
                    raise Unsupported("format spec on symbolic value")
                if v.conversion == 114:  # !r
                    if ops.all_concrete([val]):
                        parts.append(repr(val))
                        continue
                    parts.append(ops.opaque_str(self, "repr"))
                    continue
                if isinstance(val, str):
                    parts.append(val)
                elif ops.all_concrete([val]):
                    parts.append(str(val))
                else:
                    parts.append(ops.LazyStr(self, [val], v))
        if all(isinstance(p, str) for p in parts):
            return "".join(parts)
        return ops.LazyStr(self, parts, node)

    def expr_FormattedValue(self, node, frame):
        return ops.to_str(self, self.eval(node.value, frame), node)

    def expr_BinOp(self, node, frame):
        l = self.eval(node.left, frame)
        r = self.eval(node.right, frame)
        return ops.binop(self, type(node.op).__name__, l, r, node)

    def expr_UnaryOp(self, node, frame):
        sk0 = getattr(self.ctx, "skolem_count", 0)
        v = self.eval(node.operand, frame)
        if isinstance(node.op, ast.Not):
            if self.formula_mode and getattr(self.ctx, "skolem_count", 0) != sk0:
                raise Unsupported("negation of a quantified formula")
            t = ops.truth(self, v)
            if isinstance(t, bool):
                return not t
            return SV("bool", z3.Not(t))
        return ops.unop(self, type(node.op).__name__, v, node)

    def expr_BoolOp(self, node, frame):
        is_and = isinstance(node.op, ast.And)
        if self.formula_mode:
            ts = []
            for e in node.values:
                t = ops.truth(self, self.eval(e, frame))
                if isinstance(t, bool):
                    if is_and and not t:
                        return False
                    if not is_and and t:
                        return True
                    continue
                ts.append(t)
            if not ts:
                return is_and
            return SV("bool", z3.And(ts) if is_and else z3.Or(ts))
        v = None
        for i, e in enumerate(node.values):
            v = self.eval(e, frame)
            if i == len(node.values) - 1:
                return v
            t = self.truth(v, node)
            if is_and and not t:
                return v
            if not is_and and t:
                return v
        return v

    def expr_Compare(self, node, frame):
        left = self.eval(node.left, frame)
        result = True
        for i, (op, rn) in enumerate(zip(node.ops, node.comparators)):
            right = self.eval(rn, frame)
            r = ops.compare(self, type(op).__name__, left, right, node)
            if i == len(node.ops) - 1:
                return r
            if not self.truth(r, node):
                return False
            left = right
        return result

    def expr_IfExp(self, node, frame):
        if self.formula_mode:
            c = ops.truth(self, self.eval(node.test, frame))
            if not isinstance(c, bool):
                a = self.eval(node.body, frame)
                b = self.eval(node.orelse, frame)
                from .core import lift, to_any

                if isinstance(a, tuple) and isinstance(b, tuple) and len(a) == len(b):
                    out = []
                    for x, y in zip(a, b):
                        kx, tx = lift(x)
                        ky, ty = lift(y)
                        out.append(ops.mk(kx, z3.If(c, tx, ty)) if kx == ky else ops.mk("any", z3.If(c, to_any(x), to_any(y))))
                    return tuple(out)

                try:
                    ka, ta = lift(a)
                    kb, tb = lift(b)
                except Unsupported:
                    ka, kb = "x", "y"
                if ka == kb:
                    return ops.mk(ka, z3.If(c, ta, tb))
                return ops.mk("any", z3.If(c, to_any(a), to_any(b)))
        if self.truth(self.eval(node.test, frame), node):
            return self.eval(node.body, frame)
        return self.eval(node.orelse, frame)

    def expr_Lambda(self, node, frame):
        return self.make_ifunc(node, frame, "<lambda>")

    def expr_Await(self, node, frame):
        v = self.eval(node.value, frame)
        return ops.await_value(self, v, node)

    def expr_Starred(self, node, frame):
        raise Unsupported("starred expression outside call/display")

    def expr_NamedExpr(self, node, frame):
        v = self.eval(node.value, frame)
        self.assign(node.target, v, frame)
        return v

    def expr_Call(self, node, frame):
        # logging calls: arguments are evaluated (they may raise), the call itself is dropped
        if (
            isinstance(node.func, ast.Attribute)
            and isinstance(node.func.value, ast.Name)
            and node.func.value.id == "_LOGGER"
            and self.skip_logging
        ):
            for a in node.args:
                self.eval(a.value if isinstance(a, ast.Starred) else a, frame)
            for k in node.keywords:
                self.eval(k.value, frame)
            return None
        fn = self.eval(node.func, frame)
        args = []
        for a in node.args:
            if isinstance(a, ast.Starred):
                args.extend(ops.iter_concrete(self, self.eval(a.value, frame), a))
            else:
                args.append(self.eval(a, frame))
        kwargs = {}
        for k in node.keywords:
            if k.arg is None:
                d = self.eval(k.value, frame)
                if not isinstance(d, dict):
                    raise Unsupported("** of a non-concrete mapping")
                for kk, vv in d.items():
                    if kk in kwargs:
                        self.raise_(TypeError, f"got multiple values for keyword argument '{kk}'", node=node)
                    kwargs[kk] = vv
            else:
                kwargs[k.arg] = self.eval(k.value, frame)
        frame.call_ordinal += 1
        return self.call(fn, args, kwargs, node)

    def expr_ListComp(self, node, frame):
        from . import loops

        return loops.eval_comprehension(self, node, frame, "list")

    def expr_GeneratorExp(self, node, frame):
        from . import loops

        return loops.eval_comprehension(self, node, frame, "gen")

    def expr_DictComp(self, node, frame):
        from . import loops

        return loops.eval_comprehension(self, node, frame, "dict")

    def expr_SetComp(self, node, frame):
        from . import loops

        return loops.eval_comprehension(self, node, frame, "set")

    # ------------------------------------------------------------ attribute protocol
    def getattr(self, obj, name, node=None):
        return ops.getattr_(self, obj, name, node)

    def setattr(self, obj, name, v, node=None):
        return ops.setattr_(self, obj, name, v, node)

    def getitem(self, obj, idx, node=None):
        return ops.getitem(self, obj, idx, node)

    def setitem(self, obj, idx, v, node=None):
        return ops.setitem(self, obj, idx, v, node)

    def delitem(self, obj, idx, node=None):
        return ops.delitem(self, obj, idx, node)
