"""Interpreter-level values that are neither plain Python objects nor scalar terms."""
from __future__ import annotations

import z3

from .core import KIND_SORT, SV


class Obj:
    """Instance of a class whose methods are interpreted from source.

    Singletons (Gateway, Tasks, OTAFirmware, ...) and transient records (Message, a freshly
    constructed Sensor/ChildSensor before it is stored into its slot).
    """

    def __init__(self, pycls, fields=None, name=None):
        self.pycls = pycls
        self.fields = fields if fields is not None else {}
        self.moved = False
        self.name = name or pycls.__name__

    def __repr__(self):
        return f"Obj<{self.name}>"


class SeqVal:
    """A transient symbolic sequence: list of str ('liststr' elements 'str'), or bytes.

    Mutable wrapper (list.pop / append rebind the term).
    """

    def __init__(self, elem_kind, term, pytype="list"):
        self.elem_kind = elem_kind
        self.term = term
        self.pytype = pytype  # list | bytes | deque | tuple

    def __repr__(self):
        return f"SeqVal<{self.pytype}[{self.elem_kind}]:{self.term}>"

    def length(self):
        return z3.Length(self.term)


class SymList:
    """A Python list of strings of symbolic length that never becomes a solver term:
    a length term plus an element function (index term -> string term)."""

    _pyvc_symbolic = True

    def __init__(self, len_t, getf):
        self.len_t = len_t
        self.getf = getf

    def elem(self, i):
        if isinstance(i, int):
            i = z3.IntVal(i)
        return self.getf(i)

    def with_item(self, idx_term, val_term):
        """list after lst[idx] = val (functional update of the element function)"""
        old = self.getf
        self.getf = lambda i, _o=old, _k=idx_term, _v=val_term: z3.If(i == _k, _v, _o(i))

    def appended(self, val_term):
        old, n = self.getf, self.len_t
        self.getf = lambda i, _o=old, _n=n, _v=val_term: z3.If(i == _n, _v, _o(i))
        self.len_t = z3.simplify(n + 1)


class LazyMap:
    """[f(x) for x in xs] over a sequence of symbolic length, all elements assumed to have
    succeeded; element i is produced on demand by re-running the body on xs[i]."""

    def __init__(self, src, body):
        self.src = src
        self.body = body  # callable(value) -> value, runs under "no raise" assumption


class BoundMethod:
    def __init__(self, self_val, func, defcls=None):
        self.self_val = self_val
        self.func = func  # real function object or IFunc
        self.defcls = defcls

    def __repr__(self):
        return f"BoundMethod<{getattr(self.func, '__qualname__', self.func)}>"


class IFunc:
    """A function created by executing a `def`/`lambda` inside interpreted code (closure)."""

    def __init__(self, node, frame, name, module_globals, defcls=None, is_async=False):
        self.node = node
        self.frame = frame  # defining frame (closure environment)
        self.__name__ = name
        self.__qualname__ = name
        self.globals = module_globals
        self.defcls = defcls
        self.is_async = is_async

    def __repr__(self):
        return f"IFunc<{self.__name__}>"


class ModelFn:
    """A modelled builtin / library function."""

    def __init__(self, name, fn):
        self.name = name
        self.fn = fn

    def __repr__(self):
        return f"ModelFn<{self.name}>"


class DictView:
    """d.keys() / d.values() / d.items() of a MapRef or of a concrete dict of values."""

    def __init__(self, mapref, mode):
        self.mapref = mapref
        self.mode = mode


class Opaque:
    """A value the engine carries around but cannot look into (callbacks, log strings...)."""

    def __init__(self, name, callable_contract=None):
        self.name = name
        self.callable_contract = callable_contract

    def __repr__(self):
        return f"Opaque<{self.name}>"


class LazyField:
    """A field whose value is chosen (possibly forking) at first read."""

    _pyvc_symbolic = True

    def __init__(self, fn):
        self.fn = fn


class Coro:
    """The result of calling an `async def`: not executed until awaited (or spawned)."""

    _pyvc_symbolic = True

    def __init__(self, func, args, kwargs, defcls=None):
        self.func, self.args, self.kwargs, self.defcls = func, list(args), dict(kwargs), defcls
        self.started = False


class Awaitable:
    """A library awaitable: `on_await(it)` produces the value (or raises) when awaited."""

    _pyvc_symbolic = True

    def __init__(self, on_await, name="awaitable"):
        self.on_await, self.name = on_await, name


class Modelled:
    """A library object modelled by the engine: attributes are served by `attrs[name]`."""

    _pyvc_symbolic = True

    def __init__(self, name, attrs=None):
        self.name = name
        self.attrs = attrs or {}

    def __repr__(self):
        return f"Modelled<{self.name}>"


class VolatileField:
    """A location another thread may write (rely): every read calls `read(it)` afresh."""

    _pyvc_symbolic = True

    def __init__(self, read):
        self.read = read


class CompList:
    """[elt for k1 in d1 (for k2 in d2(k1)) ...] over symbolic dicts, summarised by its element-wise law:
    the list holds elt(k) for every key tuple k in the (nested) domains, and nothing else.  `skolems` are the
    bound key constants, `guard` says they are in their domains, `elems` the element terms for that tuple
    (several when inner loops over literal tuples were unrolled).  `extra` holds lists appended later."""

    _pyvc_symbolic = True

    def __init__(self, skolems, guard, elems):
        self.skolems, self.guard, self.elems = skolems, guard, elems
        self.extra = []
