"""Uninterpreted builtins on text/bytes plus the laws about them.

Every law is a fact about a CPython builtin (trusted base T-str / T-hex, audited natively by
audits/laws_audit.py) and is *instantiated by the generator at the terms that occur*, so
queries stay quantifier free.
"""
from __future__ import annotations

import z3

from .core import BOOL, BYTES, BYTE, INT, LSTR, REAL, STR

py_rstrip = z3.Function("py_rstrip", STR, STR)
py_strip = z3.Function("py_strip", STR, STR)
py_split = z3.Function("py_split", STR, STR, LSTR)
py_join = z3.Function("py_join", STR, LSTR, STR)
py_int_ok = z3.Function("py_int_ok", STR, BOOL)
py_int = z3.Function("py_int", STR, INT)
py_str = z3.Function("py_str", INT, STR)
py_float_ok = z3.Function("py_float_ok", STR, BOOL)
py_float = z3.Function("py_float", STR, REAL)
py_float_nan = z3.Function("py_float_nan", STR, BOOL)
py_float_inf = z3.Function("py_float_inf", STR, INT)  # -1 / 0 / +1
py_encode = z3.Function("py_encode_utf8", STR, BYTES)
py_decode = z3.Function("py_decode_utf8_replace", BYTES, STR)
py_hexlify = z3.Function("py_hexlify", BYTES, STR)
py_unhex_ok = z3.Function("py_unhex_ok", STR, BOOL)
py_unhexlify = z3.Function("py_unhexlify", STR, BYTES)
py_isdigit = z3.Function("py_isdigit", STR, BOOL)
py_version_ok = z3.Function("py_version_ok", STR, BOOL)  # AwesomeVersion(s) comparable, see models
py_version_major = z3.Function("py_version_major", STR, INT)
py_version_minor = z3.Function("py_version_minor", STR, INT)
py_version_patch = z3.Function("py_version_patch", STR, INT)
ff_run = z3.Function("ff_run", INT, BYTES)  # n bytes of 0xFF


class LawBook:
    """Per-path record of the text terms that occurred, for cross instantiation."""

    def __init__(self, ctx):
        self.ctx = ctx
        self.joins = []  # (sep term, [part terms], joined term)
        self.splits = []  # (s, sep, list term)
        self.seen = set()

    def _once(self, tag, *terms):
        key = (tag,) + tuple(t.get_id() for t in terms)
        if key in self.seen:
            return False
        self.seen.add(key)
        return True

    # ---- rstrip
    def rstrip(self, s):
        r = py_rstrip(s)
        if self._once("rstrip", s):
            c = self.ctx
            c.add_fact(z3.PrefixOf(r, s))
            c.add_fact(py_rstrip(r) == r)
        return r

    def strip(self, s):
        r = py_strip(s)
        if self._once("strip", s):
            self.ctx.add_fact(z3.Contains(s, r))
            self.ctx.add_fact(py_strip(r) == r)
        return r

    # ---- split / join
    def split(self, s, sep):
        lst = py_split(s, sep)
        if self._once("split", s, sep):
            c = self.ctx
            c.add_fact(z3.Length(lst) >= 1)
            c.add_fact(py_join(sep, lst) == s)
            # a string without the separator splits into itself
            c.add_fact(z3.Implies(z3.Not(z3.Contains(s, sep)), lst == z3.Unit(s)))
            c.add_fact(z3.Implies(z3.Length(lst) == 1, z3.And(lst == z3.Unit(s), z3.Not(z3.Contains(s, sep)))))
            self.splits.append((s, sep, lst))
            for jsep, parts, jt in self.joins:
                self._split_join(s, sep, lst, jsep, parts, jt)
        return lst

    def split_elem(self, lst_src, lst, i):
        """Element read of a split result: it does not contain the separator."""
        for s, sep, l2 in self.splits:
            if l2.eq(lst_src):
                e = lst[i]
                if self._once("splitelem", l2, i):
                    self.ctx.add_fact(
                        z3.Implies(z3.And(i >= 0, i < z3.Length(l2)), z3.Not(z3.Contains(l2[i], sep)))
                    )
                return e
        return lst[i]

    def join_parts(self, sep, parts):
        """sep.join([p0, ..., pn]) for a list of known length: plain concatenation."""
        if not parts:
            return z3.StringVal("")
        t = parts[0]
        for p in parts[1:]:
            t = z3.Concat(t, sep, p)
        if len(parts) >= 1 and self._once("join", sep, t):
            self.joins.append((sep, list(parts), t))
            for s, ssep, lst in self.splits:
                self._split_join(s, ssep, lst, sep, parts, t)
            # the split of this very term is also of interest
        return t

    def _split_join(self, s, sep, lst, jsep, parts, jt):
        if not self._once("sj", s, sep, jt):
            return
        nocontain = [z3.Not(z3.Contains(p, sep)) for p in parts]
        seq = None
        for p in parts:
            u = z3.Unit(p)
            seq = u if seq is None else z3.Concat(seq, u)
        self.ctx.add_fact(z3.Implies(z3.And(s == jt, sep == jsep, *nocontain), lst == seq))

    def join_sym(self, sep, lst):
        return py_join(sep, lst)

    # ---- int / str
    def str_of_int(self, n):
        s = py_str(n)
        if self._once("str", n):
            c = self.ctx
            c.add_fact(py_int_ok(s))
            c.add_fact(py_int(s) == n)
            c.add_fact(z3.Length(s) >= 1)
            for ch in (";", "/", ",", " ", "\n", "\r", "\t", "+", "#"):
                c.add_fact(z3.Not(z3.Contains(s, z3.StringVal(ch))))
            c.add_fact(py_rstrip(s) == s)
            c.add_fact(py_strip(s) == s)
            # small literals
            c.add_fact(z3.Implies(n == 0, s == z3.StringVal("0")))
            c.add_fact(z3.Implies(n == 1, s == z3.StringVal("1")))
            c.add_fact(z3.Implies(s == z3.StringVal("0"), n == 0))
            c.add_fact(z3.Implies(s == z3.StringVal("1"), n == 1))
        return s

    def int_of_str(self, s):
        return py_int_ok(s), py_int(s)

    def int_literal_facts(self, s):
        """py_int on a literal string: computed natively."""
        if z3.is_string_value(s):
            txt = s.as_string()
            try:
                v = int(txt)
                self.ctx.add_fact(py_int_ok(s))
                self.ctx.add_fact(py_int(s) == v)
            except ValueError:
                self.ctx.add_fact(z3.Not(py_int_ok(s)))

    # ---- bytes
    def ff(self, n):
        t = ff_run(n)
        if self._once("ff", n):
            c = self.ctx
            c.add_fact(z3.Implies(n >= 0, z3.Length(t) == n))
            c.add_fact(z3.Implies(n <= 0, t == z3.Empty(BYTES)))
        return t

    def ff_step(self, n):
        """ff_run(n+1) = ff_run(n) ++ [0xFF] for n >= 0 (instantiated on demand)."""
        if self._once("ffstep", n):
            self.ff(n)
            self.ff(n + 1)
            self.ctx.add_fact(
                z3.Implies(n >= 0, ff_run(n + 1) == z3.Concat(ff_run(n), z3.Unit(z3.BitVecVal(255, 8))))
            )

    def hexlify(self, b):
        h = py_hexlify(b)
        if self._once("hexlify", b):
            c = self.ctx
            c.add_fact(z3.Length(h) == 2 * z3.Length(b))
            c.add_fact(py_unhex_ok(h))
            c.add_fact(py_unhexlify(h) == b)
        return h

    def unhexlify(self, s):
        b = py_unhexlify(s)
        if self._once("unhexlify", s):
            c = self.ctx
            c.add_fact(z3.Implies(py_unhex_ok(s), z3.Length(s) == 2 * z3.Length(b)))
            c.add_fact(z3.Implies(z3.Length(s) % 2 != 0, z3.Not(py_unhex_ok(s))))
        return py_unhex_ok(s), b


def lawbook(ctx) -> LawBook:
    lb = getattr(ctx, "_lawbook", None)
    if lb is None:
        lb = LawBook(ctx)
        ctx._lawbook = lb
    return lb
