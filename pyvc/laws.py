"""Uninterpreted builtins on text/bytes plus the laws about them.

Text is the uninterpreted sort PStr.  Every law below is a fact about a CPython builtin
(trusted base T-str / T-hex, audited natively by audits/laws_audit.py) and is *instantiated by
the generator at the terms that occur*, so queries stay quantifier free and in EUF + LIA.
Facts about literals are computed with the real builtins.
"""
from __future__ import annotations

import z3

from .core import BOOL, BYTES, BYTE, INT, REAL, STR, lit_value, s_len, strlit

s_cat = z3.Function("s_cat", STR, STR, STR)  # binary concatenation, kept right-nested and flat
s_contains = z3.Function("s_contains", STR, STR, BOOL)
s_prefixof = z3.Function("s_prefixof", STR, STR, BOOL)  # s_prefixof(p, s)
s_suffixof = z3.Function("s_suffixof", STR, STR, BOOL)
s_find = z3.Function("s_find", STR, STR, INT)
s_slice = z3.Function("s_slice", STR, INT, INT, STR)  # s[lo:hi] with normalised bounds 0<=lo<=hi<=len
py_rstrip = z3.Function("py_rstrip", STR, STR)
py_strip = z3.Function("py_strip", STR, STR)
split_len = z3.Function("split_len", STR, STR, INT)
split_get = z3.Function("split_get", STR, STR, INT, STR)
py_int_ok = z3.Function("py_int_ok", STR, BOOL)
py_int = z3.Function("py_int", STR, INT)
py_str = z3.Function("py_str", INT, STR)
py_float_ok = z3.Function("py_float_ok", STR, BOOL)
py_float = z3.Function("py_float", STR, REAL)
py_float_nan = z3.Function("py_float_nan", STR, BOOL)
py_float_inf = z3.Function("py_float_inf", STR, INT)  # -1 / 0 / +1
py_encode = z3.Function("py_encode_utf8", STR, BYTES)
py_decode = z3.Function("py_decode_utf8_replace", BYTES, STR)
py_hexlify = z3.Function("py_hexlify", BYTES, STR)
py_unhex_ok = z3.Function("py_unhex_ok", STR, BOOL)
py_unhexlify = z3.Function("py_unhexlify", STR, BYTES)
py_isdigit = z3.Function("py_isdigit", STR, BOOL)
ff_run = z3.Function("ff_run", INT, BYTES)  # n bytes of 0xFF

EMPTY = strlit("")


def _literal_facts(t, sv):
    """facts about a literal, computed with the real builtins"""
    out = []
    try:
        v = int(sv)
        out.append(py_int_ok(t))
        out.append(py_int(t) == v)
        if str(v) == sv:
            out.append(py_str(z3.IntVal(v)) == t)
    except ValueError:
        out.append(z3.Not(py_int_ok(t)))
    out.append(py_rstrip(t) == strlit(sv.rstrip()))
    out.append(py_strip(t) == strlit(sv.strip()))
    for ch in (";", "/", ",", "\n"):
        out.append(s_contains(t, strlit(ch)) == z3.BoolVal(ch in sv))
    return out


from . import core as _core

if _literal_facts not in _core.LITERAL_FACT_HOOKS:
    _core.LITERAL_FACT_HOOKS.append(_literal_facts)
# single-character separators for which "contains distributes over concatenation" is instantiated
SEP_CHARS = (";", "/", ",", "\n")


def _tokens(txt):
    out, run = [], ""
    for ch in txt:
        if ch in SEP_CHARS:
            if run:
                out.append(run)
                run = ""
            out.append(ch)
        else:
            run += ch
    if run:
        out.append(run)
    return out


def _is_run(tok):
    return tok not in SEP_CHARS


def is_cat(t):
    return z3.is_app(t) and t.decl().eq(s_cat)


def flatten(t):
    """Right-nested s_cat term -> list of parts."""
    out = []
    while is_cat(t):
        out.append(t.arg(0))
        t = t.arg(1)
    out.append(t)
    return out


q_all_addr = z3.Function("q_all_addr", z3.SeqSort(STR), INT, BOOL)


class LawBook:
    """Per-path record of the text terms that occurred, for cross instantiation."""

    def __init__(self, ctx):
        self.ctx = ctx
        self.joins = []  # (sep term, [part terms], joined term)
        self.splits = []  # (s, sep)
        self.seen = set()

    def _once(self, tag, *terms):
        key = (tag,) + tuple(t.get_id() if hasattr(t, "get_id") else t for t in terms)
        if key in self.seen:
            return False
        self.seen.add(key)
        return True

    # ---- length / concat
    def length(self, s):
        lv = lit_value(s)
        if lv is not None:
            return z3.IntVal(len(lv))
        t = s_len(s)
        if self._once("len", s):
            self.ctx.add_fact(t >= 0)
            self.ctx.add_fact((t == 0) == (s == EMPTY))
        return t

    def concat(self, parts):
        """Concatenation in normal form: flat; literals are cut into tokens at the separator characters
        (each separator is its own token, runs of other characters are merged), so that a literal ";1;"
        and the pieces ";" ++ str(x) ++ ";" have the same shape and congruence can relate them."""
        flat = []

        def push_lit(txt):
            for tok in _tokens(txt):
                if flat and lit_value(flat[-1]) is not None and _is_run(lit_value(flat[-1])) and _is_run(tok):
                    flat[-1] = strlit(lit_value(flat[-1]) + tok)
                else:
                    flat.append(strlit(tok))

        for p in parts:
            for q in flatten(p):
                lv = lit_value(q)
                if lv is None:
                    flat.append(q)
                elif lv != "":
                    push_lit(lv)
        if not flat:
            return EMPTY
        t = flat[-1]
        for p in reversed(flat[:-1]):
            t = s_cat(p, t)
            self._cat_laws(t)
        return t

    def _cat_laws(self, t):
        if not self._once("cat", t):
            return
        a, b = t.arg(0), t.arg(1)
        c = self.ctx
        al = getattr(self, "aliases", {}).get(a.get_id())
        if al is not None:
            hypf, p = al
            c.add_fact(z3.Implies(hypf, t == self.concat(flatten(p) + [b])))
        c.add_fact(s_len(t) == self.length(a) + self.length(b))
        self.length(t)
        # identity: concatenating with the empty string changes nothing
        if lit_value(b) is None:
            c.add_fact(z3.Implies(b == EMPTY, t == a))
        if lit_value(a) is None:
            c.add_fact(z3.Implies(a == EMPTY, t == b))
        for ch in SEP_CHARS:
            cl = strlit(ch)
            c.add_fact(s_contains(t, cl) == z3.Or(self.contains(a, cl), self.contains(b, cl)))

    def contains(self, a, b):
        la, lb_ = lit_value(a), lit_value(b)
        if la is not None and lb_ is not None:
            return z3.BoolVal(lb_ in la)
        if lb_ == "":
            return z3.BoolVal(True)
        t = s_contains(a, b)
        if la is not None and lb_ is not None:
            return t
        if self._once("contains", a, b):
            if a.eq(b):
                self.ctx.add_fact(t)
            # a string shorter than the needle cannot contain it
            self.ctx.add_fact(z3.Implies(t, self.length(a) >= self.length(b)))
        return t

    # ---- rstrip / strip
    def rstrip(self, s):
        lv = lit_value(s)
        if lv is not None:
            return strlit(lv.rstrip())
        r = py_rstrip(s)
        if self._once("rstrip", s):
            c = self.ctx
            c.add_fact(s_prefixof(r, s))
            c.add_fact(py_rstrip(r) == r)
            c.add_fact(self.length(r) <= self.length(s))
            for ch in SEP_CHARS:
                if ch.strip():
                    cl = strlit(ch)
                    # stripping blanks neither adds nor removes a non-blank character
                    c.add_fact(s_contains(r, cl) == self.contains(s, cl))
            # R-laws on concatenations whose last part is known
            parts = flatten(s)
            if len(parts) >= 2:
                last = parts[-1]
                ll = lit_value(last)
                head = self.concat(parts[:-1])
                self.rstrip_forms = getattr(self, "rstrip_forms", [])
                if ll is not None and ll.strip() == "":
                    # trailing blanks: rstrip(x ++ blanks) = rstrip(x)
                    rh = self.rstrip(head)
                    c.add_fact(r == rh)
                    self.rstrip_forms += [(r, cform) for r0, cform in list(self.rstrip_forms) if r0.eq(rh)]
                else:
                    # rstrip(x ++ y) = x ++ rstrip(y) when rstrip(y) is not empty
                    ry = self.rstrip(last)
                    cform = self.concat([head, ry])
                    c.add_fact(z3.Implies(ry != EMPTY, r == cform))
                    # ... and when y is all blanks it disappears
                    c.add_fact(z3.Implies(ry == EMPTY, r == self.rstrip(head)))
                    # (x ++ rstrip(y) is the shape a later split of r is matched against; r equals it also when
                    # rstrip(y) is empty and x has a clean end)
                    self.rstrip_forms.append((r, cform))
        return r

    def strip(self, s):
        lv = lit_value(s)
        if lv is not None:
            return strlit(lv.strip())
        r = py_strip(s)
        if self._once("strip", s):
            self.ctx.add_fact(py_strip(r) == r)
            self.ctx.add_fact(self.length(r) <= self.length(s))
        return r

    # ---- split / join (single, non-empty literal separator)
    def split(self, s, sep):
        """Returns (length term, element function)."""
        ls, lsep = lit_value(s), lit_value(sep)
        if lsep is None or lsep == "":
            raise ValueError("split needs a literal non-empty separator")
        n = split_len(s, sep)
        if self._once("split", s, sep):
            c = self.ctx
            c.add_fact(n >= 1)
            has = self.contains(s, sep)
            c.add_fact(z3.Implies(z3.Not(has), z3.And(n == 1, split_get(s, sep, 0) == s)))
            c.add_fact(z3.Implies(n == 1, z3.And(z3.Not(has), split_get(s, sep, 0) == s)))
            if ls is not None:
                parts = ls.split(lsep)
                c.add_fact(n == len(parts))
                for i, p in enumerate(parts):
                    c.add_fact(split_get(s, sep, i) == strlit(p))
            if len(lsep) == 1 and lsep.strip() == lsep:
                last = split_get(s, sep, n - 1)
                # R-law: the last field of a string with a clean end has a clean end
                c.add_fact(z3.Implies(self.rstrip(s) == s, self.rstrip(last) == last))
            self.splits.append((s, sep))
            for jsep, parts, jt in self.joins:
                self._split_join(s, sep, jsep, parts, jt)
            # the string itself may be a concatenation that is visibly a join: p0 sep p1 sep ...
            parts = self._as_join(s, sep)
            if parts is not None:
                self._split_join(s, sep, sep, parts, s)
                if len(parts) >= 2:
                    # S-law split(x ++ d ++ y) = split(x) ++ split(y): whatever the first group is (it may
                    # contain the separator), the trailing separator-free groups are the last fields
                    g0, rest = parts[0], parts[1:]
                    n0 = split_len(g0, sep)
                    hyp = [z3.Not(self.contains(p, sep)) for p in rest]
                    concl = [n == n0 + len(rest), n0 >= 1] + [split_get(s, sep, n0 + j) == p for j, p in enumerate(rest)]
                    c.add_fact(z3.Implies(z3.And(hyp), z3.And(concl)))
            # ... or the rstrip of one: x ++ rstrip(y)
            for r0, cform in list(getattr(self, "rstrip_forms", [])):
                if r0.eq(s):
                    jparts = self._as_join(cform, sep)
                    if jparts is not None:
                        self._split_join(s, sep, sep, jparts, cform)

        def get(i):
            e = split_get(s, sep, i)
            if self._once("splitelem", s, sep, i if not isinstance(i, int) else z3.IntVal(i)):
                self.ctx.add_fact(z3.Implies(z3.And(i >= 0, i < n), z3.Not(self.contains(e, sep))))
            return e

        return n, get

    def _as_join(self, s, sep):
        parts = flatten(s)
        if len(parts) < 3:
            return None
        out = [[]]
        for p in parts:
            if p.eq(sep):
                out.append([])
            else:
                lv = lit_value(p)
                lsep = lit_value(sep)
                if lv is not None and lsep in lv:
                    # literal containing the separator: split it natively
                    pieces = lv.split(lsep)
                    out[-1].append(strlit(pieces[0]))
                    for pc in pieces[1:]:
                        out.append([strlit(pc)])
                else:
                    out[-1].append(p)
        return [self.concat(g) if g else EMPTY for g in out]

    def join_parts(self, sep, parts):
        """sep.join([p0, ..., pn]) for a list of known length: plain concatenation."""
        if not parts:
            return EMPTY
        seq = [parts[0]]
        for p in parts[1:]:
            seq.append(sep)
            seq.append(p)
        t = self.concat(seq)
        if self._once("join", sep, t):
            self.joins.append((sep, list(parts), t))
            for s, ssep in self.splits:
                self._split_join(s, ssep, sep, parts, t)
                if ssep.eq(sep):
                    # S-law join(d, split(s, d)) = s, for the whole list and for the list without its head
                    for k in (0, 1):
                        tail = parts[k:]
                        if not tail:
                            continue
                        tseq = [tail[0]]
                        for p in tail[1:]:
                            tseq.append(sep)
                            tseq.append(p)
                        tt = self.concat(tseq)
                        hyp = [split_len(s, sep) == len(tail)] + [tail[i] == split_get(s, sep, z3.IntVal(i)) for i in range(len(tail))]
                        self.ctx.add_fact(z3.Implies(z3.And(hyp), tt == s))
        return t

    def _split_join(self, s, sep, jsep, parts, jt):
        if not sep.eq(jsep):
            return
        if not self._once("sj", s, sep, jt):
            return
        nocontain = [z3.Not(self.contains(p, sep)) for p in parts]
        concl = [split_len(s, sep) == len(parts)] + [split_get(s, sep, i) == p for i, p in enumerate(parts)]
        hyp = nocontain if s.eq(jt) else [s == jt] + nocontain
        hypf = z3.And(hyp) if hyp else z3.BoolVal(True)
        self.ctx.add_fact(z3.Implies(hypf, z3.And(concl)))
        # a field that is itself a concatenation: remember it, so that a later concatenation starting with
        # the field gets the associativity instance  (field ++ rest) = (atoms of the field ++ rest)
        self.aliases = getattr(self, "aliases", {})
        for i, p in enumerate(parts):
            if len(flatten(p)) > 1:
                self.aliases[split_get(s, sep, z3.IntVal(i)).get_id()] = (hypf, p)

    # ---- int / str
    def str_of_int(self, n):
        if z3.is_int_value(n):
            return strlit(str(n.as_long()))
        s = py_str(n)
        if self._once("str", n):
            c = self.ctx
            c.add_fact(py_int_ok(s))
            c.add_fact(py_int(s) == n)
            c.add_fact(s_len(s) >= 1)
            for ch in (";", "/", ",", " ", "\n"):
                c.add_fact(z3.Not(s_contains(s, strlit(ch))))
            c.add_fact(py_rstrip(s) == s)
            c.add_fact(py_strip(s) == s)
            c.add_fact(s != EMPTY)
            for k in (0, 1, 255):
                c.add_fact((n == k) == (s == strlit(str(k))))
        return s

    def int_of_str(self, s):
        lv = lit_value(s)
        if lv is not None:
            try:
                return z3.BoolVal(True), z3.IntVal(int(lv))
            except ValueError:
                return z3.BoolVal(False), z3.IntVal(0)
        if self._once("int", s):
            # str(int(s)) is the canonical spelling: int(str(int(s))) = int(s) comes from str_of_int
            pass
        return py_int_ok(s), py_int(s)

    # ---- sequences of lines
    # (q_all_addr(q, n): every line in the sequence q is a command for node n - an uninterpreted predicate with
    # the three facts a deque needs: empty, append at the end, pop at the front; see contract.m_all_addressed)

    # ---- bytes
    def ff(self, n):
        t = ff_run(n)
        if self._once("ff", n):
            c = self.ctx
            c.add_fact(z3.Implies(n >= 0, z3.Length(t) == n))
            c.add_fact(z3.Implies(n <= 0, t == z3.Empty(BYTES)))
        return t

    def ff_step(self, n):
        """ff_run(n+1) = ff_run(n) ++ [0xFF] for n >= 0 (instantiated on demand)."""
        if self._once("ffstep", n):
            self.ff(n)
            self.ff(n + 1)
            self.ctx.add_fact(
                z3.Implies(n >= 0, ff_run(n + 1) == z3.Concat(ff_run(n), z3.Unit(z3.BitVecVal(255, 8))))
            )

    def hexlify(self, b):
        h = py_hexlify(b)
        if self._once("hexlify", b):
            c = self.ctx
            c.add_fact(s_len(h) == 2 * z3.Length(b))
            c.add_fact(py_unhex_ok(h))
            c.add_fact(py_unhexlify(h) == b)
            for ch in SEP_CHARS:
                c.add_fact(z3.Not(s_contains(h, strlit(ch))))
            c.add_fact(py_rstrip(h) == h)
        return h

    def unhexlify(self, s):
        lv = lit_value(s)
        b = py_unhexlify(s)
        if self._once("unhexlify", s):
            c = self.ctx
            c.add_fact(z3.Implies(py_unhex_ok(s), self.length(s) == 2 * z3.Length(b)))
            c.add_fact(z3.Implies(self.length(s) % 2 != 0, z3.Not(py_unhex_ok(s))))
            c.add_fact(z3.Implies(py_unhex_ok(s), py_hexlify(b) != EMPTY if False else z3.BoolVal(True)))
        return py_unhex_ok(s), b


def lawbook(ctx) -> LawBook:
    lb = getattr(ctx, "_lawbook", None)
    if lb is None:
        lb = LawBook(ctx)
        ctx._lawbook = lb
    return lb
