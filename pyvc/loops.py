"""Loops and comprehensions.

Concrete iterables are unrolled.  A loop whose trip count is symbolic is *cut at its
invariant* (sidecar loop contract keyed by function and loop ordinal):

    init:  invariant holds on entry                      (obligation <fn>.loop<k>.init)
    pres:  from an arbitrary state satisfying it, one iteration re-establishes it
                                                         (obligation <fn>.loop<k>.pres, path ends)
    use:   invariant and exit condition are assumed after the loop

Havoc set: every local assigned in the body (computed from the AST) plus the columns/ghosts
the contract declares; every heap write the body performs is checked against the declared set
(write log), so an incomplete `modifies` is an engine error, not an unsound proof.
"""
from __future__ import annotations

import ast

import z3

from . import ops
from .core import BOOL, INT, SV, EngineError, PyRaise, Unsupported, lift
from .heap import MapRef, Row, SeqRef
from .values import DictView, LazyMap, Obj, SeqVal, SymList


class LoopContract:
    def __init__(self, invariant, modifies=(), ghosts=(), kinds=None, variant=None, name=None, fields=(), rows=None, header=None):
        # header: source text of the loop header ("while sensor.queue", "for child in sensor.children.values()").
        # When given, the contract only ever attaches to a loop with that header - wherever in the module the loop
        # lives - and never to another loop that happens to have the same position after a restructuring.
        self.header = header
        # rows: {column prefix: local name} - the loop writes that slot only in the row (object) the local refers to;
        # only that row is havoced, and "all other rows unchanged" is an obligation on the body (frame-row)
        self.rows = dict(rows or {})
        self.fields = tuple(fields)  # (local name, field name) of transient objects whose field the loop rewrites
        self.invariant = invariant  # python function (L, old, G[, visited|i]) -> bool
        self.modifies = tuple(modifies)  # column prefixes, e.g. "sensors.queue"
        self.ghosts = tuple(ghosts)
        self.kinds = kinds or {}
        self.variant = variant
        self.name = name


def _loop_key(it, frame):
    fn = frame.func
    mod = fn.globals.get("__name__") if hasattr(fn, "globals") else getattr(fn, "__module__", None)
    k = (mod, frame.name, frame.loop_ordinal)
    frame.loop_ordinal += 1
    return k


def assigned_names(body):
    names = set()

    class V(ast.NodeVisitor):
        def visit_Name(self, node):
            if isinstance(node.ctx, (ast.Store, ast.Del)):
                names.add(node.id)

        def visit_FunctionDef(self, node):
            names.add(node.name)

        visit_AsyncFunctionDef = visit_FunctionDef

        def visit_Lambda(self, node):
            return

    for s in body:
        V().visit(s)
    return names


def _run_body(it, body, frame):
    """Execute a loop body once. Returns 'next' | 'break'."""
    from .interp import BreakEx, ContinueEx

    try:
        it.exec_block(body, frame)
    except ContinueEx:
        return "next"
    except BreakEx:
        return "break"
    return "next"


# --------------------------------------------------------------------------- while
def exec_while(it, node, frame):
    from .interp import BreakEx, ContinueEx, CutPath

    key = _loop_key(it, frame)
    lc = _lookup_contract(it, key, node)
    if lc is None:
        # no contract: run while the condition is concrete; a loop whose body keeps making symbolic choices is
        # given up quickly (every choice multiplies the paths: without an invariant there is no end to it)
        n = 0
        forking = 0
        while True:
            d0 = it.ctx.di
            c = ops.truth(it, it.eval(node.test, frame))
            if not isinstance(c, bool):
                c2 = z3.simplify(c)
                if z3.is_true(c2):
                    c = True
                elif z3.is_false(c2):
                    c = False
                else:
                    raise Unsupported(f"while loop with symbolic condition and no loop contract: {key}")
            if not c:
                it.exec_block(node.orelse, frame)
                return
            n += 1
            if n > 10000:
                raise Unsupported("concrete while loop exceeds 10000 iterations")
            r = _run_body(it, node.body, frame)
            if it.ctx.di != d0:
                forking += 1
                if forking > 6:
                    raise Unsupported(f"loop {key} has no loop contract and makes symbolic choices in every iteration")
            if r == "break":
                return
    return _cut_loop(it, node, frame, key, lc, kind="while")


def loop_header(node):
    if isinstance(node, ast.While):
        return "while " + ast.unparse(node.test)
    tgt = ", ".join(ast.unparse(e) for e in node.target.elts) if isinstance(node.target, ast.Tuple) else ast.unparse(node.target)
    return f"for {tgt} in {ast.unparse(node.iter)}"


def _lookup_contract(it, key, node=None):
    """exact (module, qualname, ordinal), else a contract whose qualname is a pattern (fnmatch) for this one:
    a loop that was moved into a helper of the same name keeps its contract; a contract that names its loop
    header follows that header through the module and refuses every other loop"""
    hdr = loop_header(node) if node is not None else None
    lc = it.loop_contracts.get(key)
    if lc is not None and (lc.header is None or hdr is None or lc.header == hdr):
        return lc
    if hdr is not None:
        for (mod, qual, ordinal), cand in it.loop_contracts.items():
            if mod == key[0] and cand.header == hdr:
                return cand
    if lc is not None:
        return None  # a contract sits at this position, but it is about a different loop
    import fnmatch

    for (mod, qual, ordinal), cand in it.loop_contracts.items():
        if mod == key[0] and ordinal == key[2] and any(ch in qual for ch in "*?") and fnmatch.fnmatchcase(key[1], qual):
            return cand
    return None


def _havoc_locals(it, frame, names, lc):
    for nm in sorted(names):
        try:
            cur = frame.lookup(nm)
        except PyRaise:
            continue
        kind = lc.kinds.get(nm)
        if kind == "keep":
            # declared unchanged at the loop head (assigned only on the way out): not havoced; checked after
            # every body run that comes back to the head
            continue
        if kind is None:
            if isinstance(cur, SV):
                kind = cur.kind
            elif isinstance(cur, bool):
                kind = "bool"
            elif isinstance(cur, int):
                kind = "int"
            elif isinstance(cur, str):
                kind = "str"
            elif isinstance(cur, (bytes, bytearray)) or (isinstance(cur, SeqVal) and cur.elem_kind == "byte"):
                kind = "bytes"
            elif isinstance(cur, SeqVal) and cur.elem_kind == "str":
                kind = "qstr"
            else:
                # loop-local temporaries (objects, rows, None) are re-assigned before use in each
                # iteration; leave them, but poison so that a stale read is noticed
                frame.locals[nm] = _Poison(nm)
                continue
        if kind == "bytes":
            frame.locals[nm] = SeqVal("byte", it.ctx.fresh_term(z3.SeqSort(z3.BitVecSort(8)), nm), "bytes")
        elif kind == "qstr":
            from .core import QSTR

            frame.locals[nm] = SeqVal("str", it.ctx.fresh_term(QSTR, nm), "list")
        else:
            frame.locals[nm] = it.ctx.fresh(kind, nm)


class _Poison:
    _pyvc_symbolic = True
    def __init__(self, name):
        self.name = name

    def __repr__(self):
        return f"<havoced loop temporary {self.name}>"


def _snapshot_locals(frame):
    return dict(frame.locals)


def _eval_inv(it, lc, frame, old_ns, extra, mode, oname):
    from .contract import assume_value, assert_value, NS

    L = NS(frame.locals, parent=frame)
    G = NS(it.ctx.ghost)
    args = [L, old_ns, G] + list(extra)
    prev = it.ctx.mode
    it.ctx.mode = mode
    it.ctx.clause_name = oname
    try:
        v = it.call(lc.invariant, args, {})
        if mode == "assume":
            assume_value(it, v)
        else:
            assert_value(it, oname, v, kind="loop")
    finally:
        it.ctx.mode = prev


def _cut_loop(it, node, frame, key, lc, kind, iterinfo=None):
    """Generic invariant cut. iterinfo drives for-loops (visited set / counter)."""
    from .interp import CutPath
    from .contract import NS, snapshot_state

    ctx = it.ctx
    oname = f"{key[1]}.loop{key[2]}"
    old_ns = snapshot_state(it, frame)
    # ---- init
    extra0 = iterinfo.initial(it) if iterinfo else []
    _eval_inv(it, lc, frame, old_ns, extra0, "assert", oname + ".init")
    # ---- havoc
    names = assigned_names(node.body)
    if iterinfo:
        names |= assigned_names([ast.Expr(node.target)]) if False else set()
    _havoc_locals(it, frame, names, lc)
    from .heap import sel, sto

    rowidx = {}
    for col in lc.modifies:
        ridx = None
        if col in lc.rows:
            row = frame.lookup(lc.rows[col])
            if not isinstance(row, Row):
                raise EngineError(f"loop {key}: rows[{col}] names {lc.rows[col]}, which is not an object of a table")
            ridx = list(row.idx)
            rowidx[col] = ridx
        for c in it.world.columns_under(col):
            if ridx is None:
                it.world.havoc(c)
            else:
                cur = it.world.get(c)
                fresh = ctx.fresh_term(cur.sort(), c + "_h")
                it.world.set(c, sto(cur, ridx, sel(fresh, ridx)))
    for g in lc.ghosts:
        cur = ctx.ghost[g]
        ctx.ghost[g] = _havoc_ghost(it, g, cur)
    for lname, fname in lc.fields:
        o = frame.lookup(lname)
        o.fields[fname] = _havoc_ghost(it, f"{lname}.{fname}", o.fields[fname])
    extra = iterinfo.arbitrary(it) if iterinfo else []
    _eval_inv(it, lc, frame, old_ns, extra, "assume", oname + ".inv")
    # ---- continue or exit
    if kind == "while":
        cont = it.truth(it.eval(node.test, frame), node)
    else:
        cont = iterinfo.has_next(it)
    if cont:
        if iterinfo:
            iterinfo.bind_next(it, node, frame)
        log_prev = it.write_log
        it.write_log = []
        cols_before = dict(it.world.cols) if it.world is not None else {}
        kept = {nm: frame.locals.get(nm) for nm, kd in lc.kinds.items() if kd == "keep" and nm in frame.locals}
        try:
            r = _run_body(it, node.body, frame)
        finally:
            wl, it.write_log = it.write_log, log_prev
            if log_prev is not None:
                log_prev.extend(wl)
        _check_frame(it, wl, lc, key)
        _check_frame_world(it, cols_before, lc, key, rowidx, oname)
        if r != "break":
            for nm, kd in lc.kinds.items():
                if kd == "keep" and nm in kept and frame.locals.get(nm) is not kept.get(nm):
                    raise EngineError(f"loop {key}: the contract keeps local {nm}, but the body assigns it on a path back to the loop head")
        if r == "break":
            # leaving the loop from an arbitrary iteration: execution continues after the loop
            return
        extra2 = iterinfo.advanced(it) if iterinfo else []
        _eval_inv(it, lc, frame, old_ns, extra2, "assert", oname + ".pres")
        if lc.variant is not None:
            pass
        raise CutPath()
    if iterinfo:
        iterinfo.at_exit(it)
    if node.orelse:
        it.exec_block(node.orelse, frame)
    return


def _havoc_ghost(it, name, cur):
    if isinstance(cur, bool):
        return it.ctx.fresh("bool", name)
    if isinstance(cur, int):
        return it.ctx.fresh("int", name)
    if isinstance(cur, SV):
        return it.ctx.fresh(cur.kind, name)
    if isinstance(cur, SeqVal):
        return SeqVal(cur.elem_kind, it.ctx.fresh_term(cur.term.sort(), name), cur.pytype)
    if isinstance(cur, GhostArr):
        return GhostArr(it.ctx.fresh_term(cur.term.sort(), name), cur.roles, cur.kind)
    raise Unsupported(f"cannot havoc ghost {name}")


class GhostArr:
    _pyvc_symbolic = True
    """Ghost map (nested array) usable in contracts: g[k1][k2]..."""

    def __init__(self, term, roles, kind):
        self.term, self.roles, self.kind = term, tuple(roles), kind


def _check_frame_world(it, cols_before, lc, key, rowidx, oname):
    """frame of one arbitrary iteration, read off the heap itself (not the write log): a column whose term
    changed must be listed in `modifies`; where the contract restricts the loop to one row, every other row
    of the column must be provably unchanged"""
    from .heap import sel, sto

    if it.world is None:
        return
    for c, now in it.world.cols.items():
        before = cols_before.get(c)
        if before is not None and now.eq(before):
            continue
        m = next((m for m in lc.modifies if c == m or c.startswith(m + ".")), None)
        if m is None:
            raise EngineError(f"loop {key}: body writes column {c} which the loop contract does not list")
        if m in rowidx and before is not None:
            ridx = rowidx[m]
            it.ctx.clause_kind = "loop"
            it.ctx.oblige(oname + ".frame-row", sto(before, ridx, sel(now, ridx)) == now, kind="loop")


def _check_frame(it, wl, lc, key):
    for loc, what in wl:
        if isinstance(loc, str):
            if not any(loc == m or loc.startswith(m + ".") for m in lc.modifies):
                raise EngineError(f"loop {key}: body writes column {loc} which the loop contract does not list")
        # writes to transient objects (messages built in the body) are local to the iteration


# --------------------------------------------------------------------------- for
class DictIterInfo:
    """for x in d.keys()/values()/items() over a symbolic dict: ghost visited set."""

    def __init__(self, view):
        self.view = view
        m = view.mapref
        if m.spec.arity != 1:
            raise Unsupported("iteration over tuple-keyed dict")
        self.m = m
        self.dom0 = m.dom_arr()
        self.role = m.spec.role
        self.visited = None
        self.k = None
        self.ordinal = 0

    def _vis(self, term):
        return VisitedSet(term, self.role)

    def initial(self, it):
        return [self._vis(z3.K(INT, z3.BoolVal(False)))]

    def arbitrary(self, it):
        v = it.ctx.fresh_term(z3.ArraySort(INT, BOOL), "visited")
        self.visited = v
        if it.stack:
            # expose the enclosing loop's visited set to the invariants of nested loops
            it.stack[-1].locals[f"visited_{self.ordinal}"] = self._vis(v)
        dom0 = self.dom0
        it.ctx.add_universal((self.role,), lambda kk: z3.Implies(z3.Select(v, kk), z3.Select(dom0, kk)), "visited<=dom")
        return [self._vis(v)]

    def has_next(self, it):
        # exists k in dom0 \ visited  <=>  visited != dom0 (given visited <= dom0)
        return it.branch(self.visited != self.dom0)

    def bind_next(self, it, node, frame):
        k = it.ctx.fresh("int", "iterkey")
        self.k = k
        it.ctx.add_index_term(self.role, k.term)
        it.ctx.add_fact(z3.Select(self.dom0, k.term))
        it.ctx.add_fact(z3.Not(z3.Select(self.visited, k.term)))
        mode = self.view.mode
        if mode == "keys":
            val = k
        elif mode == "values":
            val = self.m.read(k)
        else:
            val = (k, self.m.read(k))
        it.assign(node.target, val, frame)

    def advanced(self, it):
        # the dict iterated over must not change size during the iteration
        it.ctx.oblige("loop.iterated-dict-unchanged", self.m.dom_arr() == self.dom0, kind="loop")
        return [self._vis(z3.Store(self.visited, self.k.term, True))]

    def at_exit(self, it):
        v, dom0 = self.visited, self.dom0
        it.ctx.add_fact(v == dom0)


class VisitedSet:
    _pyvc_symbolic = True
    def __init__(self, term, role):
        self.term, self.role = term, role


class RangeIterInfo:
    """for _ in range(n) with symbolic n: ghost counter i."""

    def __init__(self, rng):
        self.start = lift(rng.start)[1]
        self.stop = lift(rng.stop)[1]
        self.i = None

    def initial(self, it):
        return [ops.mk("int", self.start)]

    def arbitrary(self, it):
        i = it.ctx.fresh("int", "i")
        self.i = i
        it.ctx.add_fact(i.term >= self.start)
        # for an empty range the loop exits at once with i = start
        it.ctx.add_fact(z3.Or(i.term <= self.stop, i.term == self.start))
        return [i]

    def has_next(self, it):
        return it.branch(self.i.term < self.stop)

    def bind_next(self, it, node, frame):
        it.assign(node.target, self.i, frame)

    def advanced(self, it):
        return [ops.mk("int", self.i.term + 1)]

    def at_exit(self, it):
        pass


def exec_for(it, node, frame):
    from .models import SymRange

    itv = it.eval(node.iter, frame)
    itv = ops.specialize(it, itv, node)
    if isinstance(itv, MapRef):
        itv = DictView(itv, "keys")
    if isinstance(itv, DictView) and isinstance(itv.mapref, MapRef):
        key = _loop_key(it, frame)
        lc = _lookup_contract(it, key, node)
        if lc is None:
            raise Unsupported(f"for loop over a symbolic dict without loop contract: {key}")
        di = DictIterInfo(itv)
        di.ordinal = key[2]
        return _cut_loop(it, node, frame, key, lc, "for", di)
    if isinstance(itv, SymRange):
        key = _loop_key(it, frame)
        lc = _lookup_contract(it, key, node)
        if lc is None:
            raise Unsupported(f"for loop over a symbolic range without loop contract: {key}")
        return _cut_loop(it, node, frame, key, lc, "for", RangeIterInfo(itv))
    if isinstance(itv, (SeqVal, SeqRef, LazyMap, SymList)):
        raise Unsupported("for loop over a symbolic sequence")
    _loop_key(it, frame)
    if isinstance(itv, dict):
        items = list(itv.keys())
    elif isinstance(itv, (list, tuple, range, set, frozenset)) or type(itv).__name__ in (
        "dict_items",
        "dict_keys",
        "dict_values",
        "deque",
    ):
        items = list(itv)
    elif itv is None or isinstance(itv, (int, SV, Obj, Row)):
        it.raise_(TypeError, "object is not iterable", node=node)
    elif ops.all_concrete([itv]):
        items = list(itv)
    else:
        raise Unsupported(f"for loop over {type(itv).__name__}")
    broke = False
    for x in items:
        it.assign(node.target, x, frame)
        if _run_body(it, node.body, frame) == "break":
            broke = True
            break
    if not broke:
        it.exec_block(node.orelse, frame)


# --------------------------------------------------------------------------- comprehensions
def eval_comprehension(it, node, frame, kind):
    from .interp import Frame

    gens = node.generators
    sub = Frame(frame.name, frame.globals, parent=frame, defcls=frame.defcls, func=frame.func)
    sub.first_arg = frame.first_arg
    out_list = []
    out_dict = {}
    sym_gens = []

    def emit():
        if kind == "dict":
            k = it.eval(node.key, sub)
            if isinstance(k, SV):
                raise Unsupported("dict comprehension with symbolic key")
            out_dict[k] = it.eval(node.value, sub)
        else:
            out_list.append(it.eval(node.elt, sub))

    def rec(gi):
        if gi == len(gens):
            emit()
            return
        g = gens[gi]
        itv = it.eval(g.iter, sub if gi > 0 else frame)
        if isinstance(itv, SymList) and len(gens) == 1 and not g.ifs and kind == "list":
            raise _LazyNeeded(itv)
        if isinstance(itv, MapRef):
            itv = DictView(itv, "keys")
        if isinstance(itv, DictView) and isinstance(itv.mapref, MapRef) and kind == "list":
            # element-wise law: evaluate the rest once for an arbitrary key of this dict
            m = itv.mapref
            if m.spec.arity != 1:
                raise Unsupported("comprehension over tuple-keyed dict")
            kk = it.ctx.fresh("int", "compkey")
            it.ctx.add_index_term(m.spec.role, kk.term)
            sym_gens.append((kk.term, z3.Select(m.dom_arr(), kk.term)))
            it.ctx.add_fact(z3.Select(m.dom_arr(), kk.term))  # local to this evaluation: the key is in the dict
            val = kk if itv.mode == "keys" else (m.read(kk) if itv.mode == "values" else (kk, m.read(kk)))
            it.assign(g.target, val, sub)
            for cond in g.ifs:
                raise Unsupported("filter in a comprehension over a symbolic dict")
            rec(gi + 1)
            return
        if isinstance(itv, (DictView, MapRef, SeqVal, SeqRef, LazyMap)):
            raise Unsupported("comprehension over a symbolic container")
        if isinstance(itv, dict):
            items = list(itv.keys())
        else:
            items = ops.iter_concrete(it, itv, node)
        for x in items:
            it.assign(g.target, x, sub)
            ok = True
            for cond in g.ifs:
                if not it.truth(it.eval(cond, sub), node):
                    ok = False
                    break
            if ok:
                rec(gi + 1)

    try:
        rec(0)
    except _LazyNeeded as ln:
        return _lazy_list_comp(it, node, frame, ln.src)
    if sym_gens:
        from .values import CompList

        return CompList([k for k, _ in sym_gens], z3.And([g_ for _, g_ in sym_gens]), out_list)
    if kind == "dict":
        return out_dict
    if kind == "set":
        return ops.make_set(it, out_list)
    return out_list


class _LazyNeeded(Exception):
    def __init__(self, src):
        self.src = src


def _lazy_list_comp(it, node, frame, src):
    """[body(x) for x in xs], len(xs) symbolic.

    D-law: either the body raises for some element (the exception of the *first* such
    element escapes; we fork on 'some element j raises' with an arbitrary j and run the body
    on xs[j] down its exceptional paths), or it succeeds for all elements and the result is
    the element-wise map (elements produced on demand, each under the 'did not raise' fact).
    """
    from .interp import Frame

    g = node.generators[0]
    ctx = it.ctx
    ln = src.len_t

    def run_body(val):
        sub = Frame(frame.name, frame.globals, parent=frame, defcls=frame.defcls, func=frame.func)
        it.assign(g.target, val, sub)
        return it.eval(node.elt, sub)

    # fork: does some element make the body raise?
    k = ctx.choose([z3.BoolVal(True), z3.BoolVal(True)], labels=["all-ok", "some-raises"], site=it.site(node))
    if k == 1:
        j = ctx.fresh("int", "j")
        ctx.add_fact(z3.And(j.term >= 0, j.term < ln))
        v = ops.mk("str", src.elem(j.term))
        try:
            run_body(v)
        except PyRaise:
            raise
        # body did not raise on this element on this path: path is not the one we forked for
        from .core import PathDead

        raise PathDead()

    def ok_body(val):
        try:
            return run_body(val)
        except PyRaise:
            from .core import PathDead

            raise PathDead() from None

    if _elt_is_text(node.elt, g.target):
        # text -> text bodies: the result is again a list of strings of the same length, element i = body(xs[i])
        # (the body is re-run for every index the program asks for, so the text laws are instantiated for it)
        from .values import SymList

        def getf(i):
            kind, t = ops.lift(ops.force(ok_body(ops.mk("str", src.elem(i)))))
            if kind != "str":
                raise Unsupported("comprehension body did not produce text")
            return t

        return SymList(ln, getf)
    return LazyMap(src, ok_body)


_TEXT_METHODS = ("strip", "rstrip", "lstrip", "lower", "upper")


def _elt_is_text(elt, target):
    import ast

    if not isinstance(target, ast.Name):
        return False
    if isinstance(elt, ast.Name):
        return elt.id == target.id
    return (
        isinstance(elt, ast.Call)
        and isinstance(elt.func, ast.Attribute)
        and elt.func.attr in _TEXT_METHODS
        and isinstance(elt.func.value, ast.Name)
        and elt.func.value.id == target.id
    )
