"""Sidecar contracts: registry, the spec vocabulary (forall, old, ghost), evaluation modes.

A contract is a plain Python class in /verif/contracts/*.py:

    @contract("mysensors.sensor:Sensor.get_desired_value")
    class _:
        def setup(b): ...            # state builder: symbolic pre-state + arguments
        def requires(self, child_id, value_type): ...
        raises = {}                  # exception class -> condition function, or () for none
        def ensures(old, self, child_id, value_type, result): ...   # may be a dict name->fn
        loops = {0: Loop(invariant, modifies=[...])}

requires/ensures/invariants are *interpreted by the same engine* as the code (so they can be
evaluated symbolically for proofs and natively for replays).
"""
from __future__ import annotations

import z3

from . import ops
from .core import BOOL, INT, SV, PathDead, Unsupported, lift
from .heap import MapRef, Row, SeqRef
from .loops import GhostArr, LoopContract, VisitedSet
from .values import DictView, ModelFn, Obj, SeqVal

REGISTRY = {}
Loop = LoopContract


def contract(target, **meta):
    def deco(cls):
        cls.target = target
        cls.meta = meta
        REGISTRY.setdefault(target, []).append(cls)
        return cls

    return deco


class NS:
    _pyvc_symbolic = True
    """Namespace object handed to invariants: attribute access to frame locals / ghosts."""

    def __init__(self, d, parent=None):
        self.d = d
        self.parent = parent


class QuantVal:
    _pyvc_symbolic = True
    """Result of forall(...) in a contract: positive positions only."""

    def __init__(self, roles, body, guard, name="forall"):
        self.roles = roles
        self.body = body  # fn(*key terms) -> z3 Bool (guard => body), evaluated in formula mode
        self.guard = guard
        self.name = name


# ------------------------------------------------------------------ spec vocabulary (native stubs)
def forall(container, fn):  # pragma: no cover - replaced by the engine; native version for replays
    if isinstance(container, dict):
        return all(fn(k) for k in list(container.keys()))
    return all(fn(k) for k in container)


def implies(a, b):
    return (not a) or b


def forall2(m1, f2, fn):  # pragma: no cover - native version for replays
    return all(fn(k1, k2) for k1 in list(m1.keys()) for k2 in list(f2(k1).keys()))


def forall3(m1, f2, f3, fn):  # pragma: no cover
    return all(
        fn(k1, k2, k3)
        for k1 in list(m1.keys())
        for k2 in list(f2(k1).keys())
        for k3 in list(f3(k1, k2).keys())
    )


def same_dict(a, b):
    return a == b


def frame_except(row, old_row, field):
    """every row of the table other than `row` has its `field` (all nested columns) unchanged"""
    return True  # native replays compare whole states instead


def same_item(m_new, m_old, key):
    """the entries of two versions of the same dict slot under `key` are equal, field by field"""
    return m_new[key] == m_old[key]


def env(name):
    """a value of the harness environment (set by the contract's setup), e.g. the gateway an OTA object belongs to"""
    raise RuntimeError("env() is only meaningful inside the engine")


def is_prefix(a, b):
    """sequence a is a prefix of sequence b"""
    return list(b[: len(a)]) == list(a)


def all_addressed(q, n):
    """every line in the sequence q is a command for node n (spec.wire.addressed)"""
    from spec import wire

    return all(wire.addressed(x, n) for x in q)


def own_container(x):
    """x is a container of its own: not a module- or class-level object of the code under contract (which every
    instance would share) - natively always true for what the contracts pass"""
    return True


def is_str(x):
    return isinstance(x, str)


def is_none(x):
    return x is None


def is_int(x):
    return isinstance(x, int) and not isinstance(x, bool)


def as_str(x):
    """the string inside a value known to be a str (identity natively)"""
    return x


def as_int(x):
    return x


def visited_contains(visited, k):
    return k in visited


# ------------------------------------------------------------------ engine side
def install_vocabulary(it):
    it.models[id(forall)] = ModelFn("forall", m_forall)
    it.models[id(implies)] = ModelFn("implies", m_implies)
    it.models[id(forall2)] = ModelFn("forall2", lambda it2, a, k: m_forall_n(it2, a[0], list(a[1:-1]), a[-1]))
    it.models[id(forall3)] = ModelFn("forall3", lambda it2, a, k: m_forall_n(it2, a[0], list(a[1:-1]), a[-1]))
    it.models[id(same_dict)] = ModelFn("same_dict", m_same_dict)
    it.models[id(frame_except)] = ModelFn("frame_except", m_frame_except)
    it.models[id(env)] = ModelFn("env", lambda it2, a, k: it2.env[a[0]])
    it.models[id(is_prefix)] = ModelFn("is_prefix", lambda it2, a, k: ops.mk("bool", z3.PrefixOf(ops._seq_term(a[0]), ops._seq_term(a[1]))))
    it.models[id(same_item)] = ModelFn("same_item", m_same_item)
    it.models[id(all_addressed)] = ModelFn("all_addressed", m_all_addressed)
    it.models[id(own_container)] = ModelFn("own_container", lambda it2, a, k: it2.module_state_name(ops.force(a[0])) is None)
    from .core import PYVAL

    def tagtest(tag, pyt):
        def fn(it2, a, k):
            x = ops.force(a[0])
            if isinstance(x, SV) and x.kind == "any":
                return ops.mk("bool", getattr(PYVAL, "is_" + tag)(x.term))
            if isinstance(x, SV):
                return {"S": "str", "I": "int", "none": "-"}[tag] == x.kind
            if tag == "none":
                return x is None
            if pyt is int:
                return isinstance(x, int) and not isinstance(x, bool)
            return isinstance(x, pyt)

        return fn

    def untag(acc, kind):
        def fn(it2, a, k):
            x = ops.force(a[0])
            if isinstance(x, SV) and x.kind == "any":
                return ops.mk(kind, getattr(PYVAL, acc)(x.term))
            return x

        return fn

    it.models[id(is_str)] = ModelFn("is_str", tagtest("S", str))
    it.models[id(is_none)] = ModelFn("is_none", tagtest("none", type(None)))
    it.models[id(is_int)] = ModelFn("is_int", tagtest("I", int))
    it.models[id(as_str)] = ModelFn("as_str", untag("sv", "str"))
    it.models[id(as_int)] = ModelFn("as_int", untag("iv", "int"))
    it.attr_models[("NS", "__any__")] = None


def _expand_select(t):
    """select(store(a, k, v), j) -> ite(k = j, v, select(a, j)), through nested selects and ite"""
    if not z3.is_app(t) or t.decl().kind() != z3.Z3_OP_SELECT:
        return t
    arr, idx = _expand_select(t.arg(0)), t.arg(1)
    if z3.is_app(arr):
        kind = arr.decl().kind()
        if kind == z3.Z3_OP_STORE:
            a0, k0, v0 = arr.arg(0), arr.arg(1), arr.arg(2)
            c = z3.simplify(k0 == idx)
            if z3.is_true(c):
                return _expand_select(v0) if z3.is_app(v0) else v0
            rest = _expand_select(z3.Select(a0, idx))
            if z3.is_false(c):
                return rest
            return z3.If(c, v0, rest)
        if kind == z3.Z3_OP_ITE:
            return z3.If(arr.arg(0), _expand_select(z3.Select(arr.arg(1), idx)), _expand_select(z3.Select(arr.arg(2), idx)))
    return z3.Select(arr, idx)


def m_all_addressed(it, a, k):
    """all_addressed(q, n) over a symbolic sequence of lines: the term is taken apart as far as its structure
    goes (empty -> true, a ++ [x] -> both, if-then-else -> per branch); what remains is the uninterpreted
    predicate q_all_addr(t, n) with the facts  len(t) = 0 => q_all_addr(t, n)  and, for a non-empty t,
    q_all_addr(t, n) => addressed(t[0], n) and q_all_addr(t[1:], n)  (what popleft needs)."""
    from spec import wire

    from .laws import lawbook, q_all_addr

    q, n = ops.force(a[0]), ops.force(a[1])
    if isinstance(q, (list, tuple)) or type(q).__name__ == "deque":
        out = True
        for x in q:
            t = ops.truth(it, it.call(wire.addressed, [x, n], {}))
            out = t if out is True else (out if t is True else z3.And(out, t))
            if t is False:
                return False
        return out if isinstance(out, bool) else ops.mk("bool", out)
    seq = _expand_select(ops._seq_term(q))
    nt = lift(n)[1]
    lb = lawbook(it.ctx)

    def addr(x):
        prev = it.formula_mode
        it.formula_mode = True  # a formula, never a fork: this is also called while facts are being stated
        try:
            t = ops.truth(it, it.call(wire.addressed, [ops.mk("str", x), n], {}))
        finally:
            it.formula_mode = prev
        return z3.BoolVal(t) if isinstance(t, bool) else t

    def atom(t):
        if lb._once("q_all_addr", t, nt):
            it.ctx.add_fact(z3.Implies(z3.Length(t) == 0, q_all_addr(t, nt)))
            # the pop-at-the-front fact is stated where a popleft on this very sequence happens (models.r_popleft)
            atoms = it.ctx.__dict__.setdefault("_q_atoms", [])
            atoms.append((t, nt, n))
        return q_all_addr(t, nt)

    def norm(t):
        if z3.is_app(t):
            kind = t.decl().kind()
            if kind == z3.Z3_OP_SEQ_EMPTY:
                return z3.BoolVal(True)
            if kind == z3.Z3_OP_SEQ_UNIT:
                return addr(t.arg(0))
            if kind == z3.Z3_OP_SEQ_CONCAT:
                return z3.And([norm(c) for c in t.children()])
            if kind == z3.Z3_OP_ITE:
                return z3.If(t.arg(0), norm(t.arg(1)), norm(t.arg(2)))
        return atom(t)

    return ops.mk("bool", z3.simplify(norm(seq)))


def q_all_popleft(it, t):
    """popleft on the sequence t: for every q_all_addr(t, n) stated so far, the head is addressed to n and the
    rest is again all addressed to n"""
    from spec import wire

    from .laws import q_all_addr

    te = _expand_select(t)
    for t0, nt, n in list(it.ctx.__dict__.get("_q_atoms", [])):
        if not (t0.eq(t) or t0.eq(te)):
            continue
        ln = z3.Length(t)
        rest = z3.SubSeq(t, 1, ln - 1)
        prev = it.formula_mode
        it.formula_mode = True
        try:
            a = ops.truth(it, it.call(wire.addressed, [ops.mk("str", t[0]), n], {}))
        finally:
            it.formula_mode = prev
        a = z3.BoolVal(a) if isinstance(a, bool) else a
        it.ctx.add_fact(z3.Implies(z3.And(ln >= 1, q_all_addr(t0, nt)), z3.And(a, q_all_addr(rest, nt))))
        it.ctx.add_fact(z3.Implies(z3.Length(rest) == 0, q_all_addr(rest, nt)))


def m_implies(it, a, k):
    p, q = a
    tp = ops.truth(it, p)
    if isinstance(q, QuantVal):
        if it.branch(tp):
            return q
        return True
    tq = ops.truth(it, q)
    if isinstance(tp, bool):
        if not tp:
            return True
        return tq if isinstance(tq, bool) else ops.mk("bool", tq)
    if isinstance(tq, bool):
        return True if tq else ops.mk("bool", z3.Not(tp))
    return ops.mk("bool", z3.Implies(tp, tq))


def m_same_dict(it, a, k):
    x, y = a
    if isinstance(x, MapRef) and isinstance(y, MapRef):
        return ops.mk("bool", x.same_as(y))
    e = ops.eq_term(it, x, y)
    return e if isinstance(e, bool) else ops.mk("bool", e)


def m_frame_except(it, a, k):
    from .heap import sel, sto

    row, old_row, field = a
    if not (isinstance(row, Row) and isinstance(old_row, Row)):
        raise Unsupported("frame_except needs rows")
    pre = f"{row.prefix}.{field}"
    conj = []
    for c in row.world.columns_under(pre):
        cur = row.world.get(c)
        old = old_row.world.get(c)
        conj.append(cur == sto(old, row.idx, sel(cur, row.idx)))
    return ops.mk("bool", z3.And(conj)) if conj else True


def m_same_item(it, a, k):
    from .heap import key_terms, sel

    m_new, m_old, key = a
    if not (isinstance(m_new, MapRef) and isinstance(m_old, MapRef)):
        raise Unsupported("same_item needs dict slots")
    kt = key_terms(key, m_new.spec.arity)
    conj = []
    for c in m_new.world.columns_under(m_new.prefix):
        if c.endswith(".#dom") and c == m_new.prefix + ".#dom":
            continue
        conj.append(sel(m_new.world.get(c), list(m_new.keys) + kt) == sel(m_old.world.get(c), list(m_old.keys) + kt))
    return ops.mk("bool", z3.And(conj)) if conj else True


def m_forall(it, a, k):
    cont, fn = a
    if isinstance(cont, DictView):
        cont = cont.mapref
    if isinstance(cont, MapRef):
        roles = cont.spec.role if isinstance(cont.spec.role, tuple) else (cont.spec.role,) * cont.spec.arity
        dom = cont.dom_arr()
        ar = cont.spec.arity

        def guard(*ks):
            t = dom
            for x in ks:
                t = z3.Select(t, x)
            return t

    elif isinstance(cont, VisitedSet):
        roles = (cont.role,)
        ar = 1
        vt = cont.term

        def guard(*ks):
            return z3.Select(vt, ks[0])

    elif isinstance(cont, str):
        # forall over all integers of a role: forall("node", lambda n: ...)
        roles = (cont,)
        ar = 1

        def guard(*ks):
            return z3.BoolVal(True)

    elif isinstance(cont, tuple) and all(isinstance(c, str) for c in cont):
        roles = cont
        ar = len(cont)

        def guard(*ks):
            return z3.BoolVal(True)

    elif isinstance(cont, (list, tuple, dict, range)):
        res = True
        for x in (cont.keys() if isinstance(cont, dict) else cont):
            v = it.call(fn, [x], {})
            t = ops.truth(it, v)
            if not it.branch(t):
                return False
        return res
    else:
        raise Unsupported(f"forall over {type(cont).__name__}")

    def body(*ks):
        vals = [ops.mk("int", t) for t in ks]
        prev = it.formula_mode
        it.formula_mode = True
        try:
            v = it.call(fn, vals, {})
        finally:
            it.formula_mode = prev
        t = ops.truth(it, v)
        if isinstance(t, bool):
            t = z3.BoolVal(t)
        return z3.Implies(guard(*ks), t)

    return QuantVal(roles, body, guard)


def _role_of(m):
    if isinstance(m, DictView):
        m = m.mapref
    if not isinstance(m, MapRef) or m.spec.arity != 1:
        raise Unsupported("forallN needs single-key symbolic dicts")
    return m


def m_forall_n(it, m1, subs, fn):
    """forall k1 in m1, k2 in subs[0](k1), ...: fn(k1, k2, ...) - nested owned dicts."""
    m1 = _role_of(m1)
    roles = [m1.spec.role]
    # discover the roles of the inner levels by a probe evaluation in formula mode
    def maps_at(ks):
        vals = [ops.mk("int", t) for t in ks]
        ms = [m1]
        prev = it.formula_mode
        it.formula_mode = True
        try:
            for i, f in enumerate(subs):
                if len(ks) > i:
                    ms.append(_role_of(it.call(f, vals[: i + 1], {})))
        finally:
            it.formula_mode = prev
        return ms

    probe = [it.ctx.fresh_term(INT, "probe") for _ in range(len(subs))]
    for m in maps_at(probe)[1:]:
        roles.append(m.spec.role)

    def body(*ks):
        ms = maps_at(list(ks[:-1]))
        guards = []
        for m, kk in zip(ms, ks):
            guards.append(z3.Select(m.dom_arr(), kk))
        vals = [ops.mk("int", t) for t in ks]
        prev = it.formula_mode
        it.formula_mode = True
        try:
            v = it.call(fn, vals, {})
        finally:
            it.formula_mode = prev
        t = ops.truth(it, v)
        if isinstance(t, bool):
            t = z3.BoolVal(t)
        return z3.Implies(z3.And(guards), t)

    return QuantVal(tuple(roles), body, None)


def truth_of_quant(it, q: QuantVal):
    """A QuantVal reached a boolean position in exec mode (positive polarity)."""
    ctx = it.ctx
    if ctx.mode == "assume":
        # Evaluate the body NOW, once, on placeholder keys: the hypothesis speaks about the state
        # at this moment (columns are captured as terms); instances are substitutions.
        ph = [ctx.fresh_term(INT, f"ph_{r}") for r in q.roles]
        n0 = len(ctx.pc)
        prev = ctx.suppress_index
        ctx.suppress_index = True
        try:
            templ = q.body(*ph)
        finally:
            ctx.suppress_index = prev
        side = ctx.pc[n0:]
        templ = z3.And([templ] + side) if side else templ

        def inst(*ks, _t=templ, _ph=ph):
            return z3.substitute(_t, *[(p, k) for p, k in zip(_ph, ks)])

        ctx.add_universal(q.roles, inst, q.name)
        return True
    if ctx.mode == "assert":
        ks = []
        for r in q.roles:
            kk = ctx.fresh_term(INT, f"sk_{r}")
            ctx.add_index_term(r, kk)
            ks.append(kk)
        ctx.skolem_count = getattr(ctx, "skolem_count", 0) + 1
        goal = q.body(*ks)
        if it.formula_mode:
            # positive position inside a formula: forall k. P(k)  ==  P(sk) for a fresh sk
            return goal
        n = getattr(ctx, "clause_name", "clause")
        ctx.quant_ord = getattr(ctx, "quant_ord", 0) + 1
        ctx.oblige(f"{n}.forall{ctx.quant_ord}", goal, kind=getattr(ctx, "clause_kind", "post"))
        return True
    raise Unsupported("forall outside a contract clause")


def assume_value(it, v):
    if isinstance(v, QuantVal):
        truth_of_quant(it, v)
        return
    t = ops.truth(it, v)
    if isinstance(t, bool):
        if not t:
            raise PathDead()
        return
    it.ctx.add_fact(t)


def assert_value(it, name, v, kind="post"):
    it.ctx.clause_kind = kind
    n0 = len(it.ctx.obligations)
    if isinstance(v, QuantVal):
        it.ctx.clause_name = name
        t = truth_of_quant(it, v)
        if it.formula_mode:
            # in formula mode the quantifier was skolemised into a term: that term is the goal
            it.ctx.oblige(name, t if not isinstance(t, bool) else z3.BoolVal(t), kind=kind)
    else:
        t = ops.truth(it, v)
        it.ctx.oblige(name, t if not isinstance(t, bool) else z3.BoolVal(t), kind=kind)
    if len(it.ctx.obligations) == n0:
        from .core import EngineError

        raise EngineError(f"clause {name} produced no obligation")


# ------------------------------------------------------------------ old-state snapshots
def snapshot_value(v, wmap, memo):
    if isinstance(v, Obj):
        if id(v) in memo:
            return memo[id(v)]
        o = Obj(v.pycls, {}, v.name)
        memo[id(v)] = o
        for k, x in v.fields.items():
            o.fields[k] = snapshot_value(x, wmap, memo)
        return o
    if isinstance(v, (MapRef, Row, SeqRef)):
        w = wmap.get(id(v.world))
        return v.with_world(w) if w is not None else v
    if isinstance(v, SeqVal):
        return SeqVal(v.elem_kind, v.term, v.pytype)
    if isinstance(v, list):
        return [snapshot_value(x, wmap, memo) for x in v]
    if isinstance(v, tuple):
        return tuple(snapshot_value(x, wmap, memo) for x in v)
    if isinstance(v, dict):
        return {k: snapshot_value(x, wmap, memo) for k, x in v.items()}
    if isinstance(v, GhostArr):
        return GhostArr(v.term, v.roles, v.kind)
    return v


def snapshot_state(it, frame=None, values=None):
    """Freeze the world and deep-copy the object graph reachable from the given values."""
    wmap = {}
    if it.world is not None:
        wmap[id(it.world)] = it.world.snapshot()
    memo = {}
    if frame is not None:
        d = {k: snapshot_value(v, wmap, memo) for k, v in frame.locals.items()}
        ns = NS(d)
        ns.ghost = {k: snapshot_value(v, wmap, memo) for k, v in it.ctx.ghost.items()}
        ns.d["G"] = NS(ns.ghost)
        return ns
    out = [snapshot_value(v, wmap, memo) for v in values]
    ghost = {k: snapshot_value(v, wmap, memo) for k, v in it.ctx.ghost.items()}
    return out, NS(ghost), wmap.get(id(it.world))
