"""Sidecar contracts: registry, the spec vocabulary (forall, old, ghost), evaluation modes.

A contract is a plain Python class in /verif/contracts/*.py:

    @contract("mysensors.sensor:Sensor.get_desired_value")
    class _:
        def setup(b): ...            # state builder: symbolic pre-state + arguments
        def requires(self, child_id, value_type): ...
        raises = {}                  # exception class -> condition function, or () for none
        def ensures(old, self, child_id, value_type, result): ...   # may be a dict name->fn
        loops = {0: Loop(invariant, modifies=[...])}

requires/ensures/invariants are *interpreted by the same engine* as the code (so they can be
evaluated symbolically for proofs and natively for replays).
"""
from __future__ import annotations

import z3

from . import ops
from .core import BOOL, INT, SV, PathDead, Unsupported, lift
from .heap import MapRef, Row, SeqRef
from .loops import GhostArr, LoopContract, VisitedSet
from .values import DictView, ModelFn, Obj, SeqVal

REGISTRY = {}
Loop = LoopContract


def contract(target, **meta):
    def deco(cls):
        cls.target = target
        cls.meta = meta
        REGISTRY.setdefault(target, []).append(cls)
        return cls

    return deco


class NS:
    _pyvc_symbolic = True
    """Namespace object handed to invariants: attribute access to frame locals / ghosts."""

    def __init__(self, d, parent=None):
        self.d = d
        self.parent = parent


class QuantVal:
    _pyvc_symbolic = True
    """Result of forall(...) in a contract: positive positions only."""

    def __init__(self, roles, body, guard, name="forall"):
        self.roles = roles
        self.body = body  # fn(*key terms) -> z3 Bool (guard => body), evaluated in formula mode
        self.guard = guard
        self.name = name


# ------------------------------------------------------------------ spec vocabulary (native stubs)
def forall(container, fn):  # pragma: no cover - replaced by the engine; native version for replays
    if isinstance(container, dict):
        return all(fn(k) for k in list(container.keys()))
    return all(fn(k) for k in container)


def implies(a, b):
    return (not a) or b


def forall2(m1, f2, fn):  # pragma: no cover - native version for replays
    return all(fn(k1, k2) for k1 in list(m1.keys()) for k2 in list(f2(k1).keys()))


def forall3(m1, f2, f3, fn):  # pragma: no cover
    return all(
        fn(k1, k2, k3)
        for k1 in list(m1.keys())
        for k2 in list(f2(k1).keys())
        for k3 in list(f3(k1, k2).keys())
    )


def same_dict(a, b):
    return a == b


def visited_contains(visited, k):
    return k in visited


# ------------------------------------------------------------------ engine side
def install_vocabulary(it):
    it.models[id(forall)] = ModelFn("forall", m_forall)
    it.models[id(implies)] = ModelFn("implies", m_implies)
    it.models[id(forall2)] = ModelFn("forall2", lambda it2, a, k: m_forall_n(it2, a[0], list(a[1:-1]), a[-1]))
    it.models[id(forall3)] = ModelFn("forall3", lambda it2, a, k: m_forall_n(it2, a[0], list(a[1:-1]), a[-1]))
    it.models[id(same_dict)] = ModelFn("same_dict", m_same_dict)
    it.attr_models[("NS", "__any__")] = None


def m_implies(it, a, k):
    p, q = a
    tp = ops.truth(it, p)
    if isinstance(q, QuantVal):
        if it.branch(tp):
            return q
        return True
    tq = ops.truth(it, q)
    if isinstance(tp, bool):
        if not tp:
            return True
        return tq if isinstance(tq, bool) else ops.mk("bool", tq)
    if isinstance(tq, bool):
        return True if tq else ops.mk("bool", z3.Not(tp))
    return ops.mk("bool", z3.Implies(tp, tq))


def m_same_dict(it, a, k):
    x, y = a
    if isinstance(x, MapRef) and isinstance(y, MapRef):
        return ops.mk("bool", x.same_as(y))
    e = ops.eq_term(it, x, y)
    return e if isinstance(e, bool) else ops.mk("bool", e)


def m_forall(it, a, k):
    cont, fn = a
    if isinstance(cont, DictView):
        cont = cont.mapref
    if isinstance(cont, MapRef):
        roles = cont.spec.role if isinstance(cont.spec.role, tuple) else (cont.spec.role,) * cont.spec.arity
        dom = cont.dom_arr()
        ar = cont.spec.arity

        def guard(*ks):
            t = dom
            for x in ks:
                t = z3.Select(t, x)
            return t

    elif isinstance(cont, VisitedSet):
        roles = (cont.role,)
        ar = 1
        vt = cont.term

        def guard(*ks):
            return z3.Select(vt, ks[0])

    elif isinstance(cont, str):
        # forall over all integers of a role: forall("node", lambda n: ...)
        roles = (cont,)
        ar = 1

        def guard(*ks):
            return z3.BoolVal(True)

    elif isinstance(cont, tuple) and all(isinstance(c, str) for c in cont):
        roles = cont
        ar = len(cont)

        def guard(*ks):
            return z3.BoolVal(True)

    elif isinstance(cont, (list, tuple, dict, range)):
        res = True
        for x in (cont.keys() if isinstance(cont, dict) else cont):
            v = it.call(fn, [x], {})
            t = ops.truth(it, v)
            if not it.branch(t):
                return False
        return res
    else:
        raise Unsupported(f"forall over {type(cont).__name__}")

    def body(*ks):
        vals = [ops.mk("int", t) for t in ks]
        prev = it.formula_mode
        it.formula_mode = True
        try:
            v = it.call(fn, vals, {})
        finally:
            it.formula_mode = prev
        t = ops.truth(it, v)
        if isinstance(t, bool):
            t = z3.BoolVal(t)
        return z3.Implies(guard(*ks), t)

    return QuantVal(roles, body, guard)


def _role_of(m):
    if isinstance(m, DictView):
        m = m.mapref
    if not isinstance(m, MapRef) or m.spec.arity != 1:
        raise Unsupported("forallN needs single-key symbolic dicts")
    return m


def m_forall_n(it, m1, subs, fn):
    """forall k1 in m1, k2 in subs[0](k1), ...: fn(k1, k2, ...) - nested owned dicts."""
    m1 = _role_of(m1)
    roles = [m1.spec.role]
    # discover the roles of the inner levels by a probe evaluation in formula mode
    def maps_at(ks):
        vals = [ops.mk("int", t) for t in ks]
        ms = [m1]
        prev = it.formula_mode
        it.formula_mode = True
        try:
            for i, f in enumerate(subs):
                if len(ks) > i:
                    ms.append(_role_of(it.call(f, vals[: i + 1], {})))
        finally:
            it.formula_mode = prev
        return ms

    probe = [it.ctx.fresh_term(INT, "probe") for _ in range(len(subs))]
    for m in maps_at(probe)[1:]:
        roles.append(m.spec.role)

    def body(*ks):
        ms = maps_at(list(ks[:-1]))
        guards = []
        for m, kk in zip(ms, ks):
            guards.append(z3.Select(m.dom_arr(), kk))
        vals = [ops.mk("int", t) for t in ks]
        prev = it.formula_mode
        it.formula_mode = True
        try:
            v = it.call(fn, vals, {})
        finally:
            it.formula_mode = prev
        t = ops.truth(it, v)
        if isinstance(t, bool):
            t = z3.BoolVal(t)
        return z3.Implies(z3.And(guards), t)

    return QuantVal(tuple(roles), body, None)


def truth_of_quant(it, q: QuantVal):
    """A QuantVal reached a boolean position in exec mode (positive polarity)."""
    ctx = it.ctx
    if ctx.mode == "assume":
        ctx.add_universal(q.roles, q.body, q.name)
        return True
    if ctx.mode == "assert":
        ks = []
        for r in q.roles:
            kk = ctx.fresh_term(INT, f"sk_{r}")
            ctx.add_index_term(r, kk)
            ks.append(kk)
        goal = q.body(*ks)
        n = getattr(ctx, "clause_name", "clause")
        ctx.quant_ord = getattr(ctx, "quant_ord", 0) + 1
        ctx.oblige(f"{n}.forall{ctx.quant_ord}", goal, kind=getattr(ctx, "clause_kind", "post"))
        return True
    raise Unsupported("forall outside a contract clause")


def assume_value(it, v):
    if isinstance(v, QuantVal):
        truth_of_quant(it, v)
        return
    t = ops.truth(it, v)
    if isinstance(t, bool):
        if not t:
            raise PathDead()
        return
    it.ctx.add_fact(t)


def assert_value(it, name, v, kind="post"):
    it.ctx.clause_kind = kind
    if isinstance(v, QuantVal):
        it.ctx.clause_name = name
        truth_of_quant(it, v)
        return
    t = ops.truth(it, v)
    it.ctx.oblige(name, t if not isinstance(t, bool) else z3.BoolVal(t), kind=kind)


# ------------------------------------------------------------------ old-state snapshots
def snapshot_value(v, wmap, memo):
    if isinstance(v, Obj):
        if id(v) in memo:
            return memo[id(v)]
        o = Obj(v.pycls, {}, v.name)
        memo[id(v)] = o
        for k, x in v.fields.items():
            o.fields[k] = snapshot_value(x, wmap, memo)
        return o
    if isinstance(v, (MapRef, Row, SeqRef)):
        w = wmap.get(id(v.world))
        return v.with_world(w) if w is not None else v
    if isinstance(v, SeqVal):
        s = SeqVal(v.elem_kind, v.term, v.pytype)
        if hasattr(v, "split_src"):
            s.split_src = v.split_src
        return s
    if isinstance(v, list):
        return [snapshot_value(x, wmap, memo) for x in v]
    if isinstance(v, tuple):
        return tuple(snapshot_value(x, wmap, memo) for x in v)
    if isinstance(v, dict):
        return {k: snapshot_value(x, wmap, memo) for k, x in v.items()}
    if isinstance(v, GhostArr):
        return GhostArr(v.term, v.roles, v.kind)
    return v


def snapshot_state(it, frame=None, values=None):
    """Freeze the world and deep-copy the object graph reachable from the given values."""
    wmap = {}
    if it.world is not None:
        wmap[id(it.world)] = it.world.snapshot()
    memo = {}
    if frame is not None:
        d = {k: snapshot_value(v, wmap, memo) for k, v in frame.locals.items()}
        ns = NS(d)
        ns.ghost = {k: snapshot_value(v, wmap, memo) for k, v in it.ctx.ghost.items()}
        ns.d["G"] = NS(ns.ghost)
        return ns
    out = [snapshot_value(v, wmap, memo) for v in values]
    ghost = {k: snapshot_value(v, wmap, memo) for k, v in it.ctx.ghost.items()}
    return out, NS(ghost), wmap.get(id(it.world))
