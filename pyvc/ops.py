"""Operator and attribute semantics over concrete and symbolic values."""
from __future__ import annotations

import collections
import enum
import types

import z3

from .core import (
    BYTES,
    INT,
    KIND_SORT,
    PYVAL,
    STR,
    SV,
    ExcVal,
    PyRaise,
    Unsupported,
    lift,
    simplify_val,
    to_any,
)
from .heap import MapRef, Row, SeqRef
from .laws import lawbook
from .values import BoundMethod, DictView, IFunc, LazyMap, ModelFn, Obj, Opaque, SeqVal, SymList

CONCRETE_SCALARS = (int, str, bool, float, bytes, type(None), enum.Enum)


def all_concrete(vals):
    for v in vals:
        if getattr(v, "_pyvc_symbolic", False):
            return False
        if isinstance(v, (SV, Obj, Row, MapRef, SeqRef, SeqVal, LazyMap, SymList, DictView, BoundMethod, IFunc, Opaque, ExcVal, LazyStr)):
            return False
        if isinstance(v, (list, tuple, set, frozenset)):
            if not all_concrete(list(v)):
                return False
        elif isinstance(v, dict):
            if not all_concrete(list(v.keys())) or not all_concrete(list(v.values())):
                return False
    return True


def to_kind_term(v, kind):
    from .core import to_kind

    return to_kind(v, kind)


class LazyStr:
    """An f-string with symbolic parts, not yet turned into a term (most feed log/error text)."""

    def __init__(self, it, parts, node=None):
        self.it, self.parts, self.node = it, parts, node
        self._forced = None

    def force(self):
        if self._forced is None:
            out = []
            for p in self.parts:
                if isinstance(p, LazyStr):
                    p = p.force()
                elif not isinstance(p, str):
                    p = to_str(self.it, p, self.node)
                out.append(p)
            self._forced = concat_str(self.it, out)
        return self._forced


def force(v):
    return v.force() if isinstance(v, LazyStr) else v


def is_scalar(v):
    return isinstance(v, (SV,) + CONCRETE_SCALARS)


def mk(kind, term):
    return simplify_val(kind, term)


def specialize(it, v, node=None):
    """Resolve a polymorphic ('any') value into None / int / str / bool on this path."""
    v = force(v)
    if not (isinstance(v, SV) and v.kind == "any"):
        return v
    t = v.term
    k = it.ctx.choose(
        [PYVAL.is_none(t), PYVAL.is_I(t), PYVAL.is_S(t), PYVAL.is_B(t)],
        labels=["None", "int", "str", "bool"],
        site=it.site(node) if node is not None else None,
    )
    if k == 0:
        return None
    if k == 1:
        return mk("int", PYVAL.iv(t))
    if k == 2:
        return mk("str", PYVAL.sv(t))
    return mk("bool", PYVAL.bv(t))


# --------------------------------------------------------------------------- truth
def truth(it, v):
    v = force(v)
    if isinstance(v, SV):
        if v.kind == "bool":
            return v.term
        if v.kind == "int":
            return v.term != 0
        if v.kind == "str":
            return lawbook(it.ctx).length(v.term) > 0
        if v.kind == "bytes":
            return z3.Length(v.term) > 0
        if v.kind == "any":
            t = v.term
            return z3.And(
                z3.Not(PYVAL.is_none(t)),
                z3.Implies(PYVAL.is_I(t), PYVAL.iv(t) != 0),
                z3.Implies(PYVAL.is_S(t), lawbook(it.ctx).length(PYVAL.sv(t)) > 0),
                z3.Implies(PYVAL.is_B(t), PYVAL.bv(t)),
            )
        if v.kind == "real":
            return v.term != 0
        raise Unsupported(f"truth of kind {v.kind}")
    if isinstance(v, MapRef):
        return v.nonempty()
    if isinstance(v, SeqRef):
        return z3.Length(v.term()) > 0
    if isinstance(v, SeqVal):
        return z3.Length(v.term) > 0
    if isinstance(v, (Obj, Row)):
        cls = v.pycls
        for klass in cls.__mro__:
            if "__bool__" in klass.__dict__ or "__len__" in klass.__dict__:
                raise Unsupported(f"truth of {cls.__name__} with __bool__/__len__")
        return True
    if isinstance(v, (BoundMethod, IFunc, ModelFn, Opaque, ExcVal)):
        return True
    if type(v).__name__ in ("Modelled", "Coro", "Awaitable", "FileHandle"):
        return True
    if isinstance(v, LazyMap):
        return v.src.len_t > 0
    if isinstance(v, SymList):
        return v.len_t > 0
    from .contract import QuantVal, truth_of_quant

    if isinstance(v, QuantVal):
        return truth_of_quant(it, v)
    return bool(v)


# --------------------------------------------------------------------------- conversions
def to_str(it, v, node=None):
    """str(v)"""
    v = force(v)
    v = specialize(it, v, node)
    if isinstance(v, SV):
        if v.kind == "str":
            return v
        if v.kind == "int":
            return mk("str", lawbook(it.ctx).str_of_int(v.term))
        if v.kind == "bool":
            return mk("str", z3.If(v.term, lift("True")[1], lift("False")[1]))
        raise Unsupported(f"str() of kind {v.kind}")
    if isinstance(v, (Obj, Row, ExcVal, Opaque, MapRef, SeqRef, SeqVal, BoundMethod, IFunc)):
        return opaque_str(it, "str")
    if isinstance(v, (list, tuple, dict)) and not all_concrete([v]):
        return opaque_str(it, "str")
    return str(v)


def opaque_str(it, hint):
    return it.ctx.fresh("str", f"opaque_{hint}")


def concat_str(it, parts):
    if all(isinstance(p, str) for p in parts):
        return "".join(parts)
    terms = [lift(p)[1] for p in parts if not (isinstance(p, str) and p == "")]
    if not terms:
        return ""
    if len(terms) == 1:
        return mk("str", terms[0])
    return mk("str", lawbook(it.ctx).concat(terms))


def to_int(it, v, node=None):
    """int(v)"""
    v = force(v)
    v = specialize(it, v, node)
    if isinstance(v, SV):
        if v.kind == "int":
            return v
        if v.kind == "bool":
            return mk("int", z3.If(v.term, 1, 0))
        if v.kind == "str":
            lb = lawbook(it.ctx)
            ok, val = lb.int_of_str(v.term)
            if not it.branch(ok, node):
                it.raise_(ValueError, "invalid literal for int()", node=node)
            return mk("int", val)
        if v.kind == "real":
            # int(x) truncates towards zero (T-int: the float is exact, |x| < 2**53)
            q = it.ctx.fresh("int", "trunc")
            x = v.term
            it.ctx.add_fact(z3.If(x >= 0, z3.And(z3.ToReal(q.term) <= x, x < z3.ToReal(q.term) + 1), z3.And(z3.ToReal(q.term) - 1 < x, x <= z3.ToReal(q.term))))
            return mk("int", q.term)
        raise Unsupported(f"int() of kind {v.kind}")
    if v is None or isinstance(v, (Obj, Row, MapRef, list, tuple, dict)):
        it.raise_(TypeError, "int() argument must be a string, a bytes-like object or a real number", node=node)
    try:
        return int(v)
    except (ValueError, TypeError) as exc:
        raise PyRaise(ExcVal(type(exc), exc.args, site=it.site(node))) from None


# --------------------------------------------------------------------------- arithmetic
_ARITH = {"Add", "Sub", "Mult", "Div", "FloorDiv", "Mod"}


def binop(it, op, a, b, node=None):
    a = specialize(it, a, node)
    b = specialize(it, b, node)
    if all_concrete([a, b]):
        try:
            import operator

            f = {
                "Add": operator.add,
                "Sub": operator.sub,
                "Mult": operator.mul,
                "Div": operator.truediv,
                "FloorDiv": operator.floordiv,
                "Mod": operator.mod,
                "Pow": operator.pow,
                "BitOr": operator.or_,
                "BitAnd": operator.and_,
                "LShift": operator.lshift,
                "RShift": operator.rshift,
                "BitXor": operator.xor,
            }[op]
            return f(a, b)
        except Exception as exc:  # pylint: disable=broad-except
            raise PyRaise(ExcVal(type(exc), exc.args, site=it.site(node))) from None
    # sequences
    if op == "Mult" and ((_is_bytes(a) and bytes(a) == b"\xff") or (_is_bytes(b) and bytes(b) == b"\xff")):
        n = b if _is_bytes(a) else a
        kn, tn = lift(n)
        lb = lawbook(it.ctx)
        t = lb.ff(tn)
        lb.ff_step(tn)
        lb.ff_step(z3.simplify(tn - 1))
        return SeqVal("byte", t, "bytes")
    if isinstance(a, (SeqVal, SeqRef)) or isinstance(b, (SeqVal, SeqRef)) or _is_bytes(a) or _is_bytes(b):
        if op == "Add":
            ek = None
            for x in (a, b):
                if isinstance(x, SeqVal):
                    ek = ek or x.elem_kind
                elif isinstance(x, SeqRef):
                    ek = ek or x.kind
            ek = ek or "byte"
            ta, tb = _seq_term(a, ek), _seq_term(b, ek)
            pt = a.pytype if isinstance(a, SeqVal) else (b.pytype if isinstance(b, SeqVal) else ("bytes" if ek == "byte" else "list"))
            return SeqVal(ek, z3.Concat(ta, tb), pt)
        raise Unsupported(f"{op} on sequences")
    if isinstance(a, (list, tuple)) and isinstance(b, (list, tuple)) and op == "Add":
        return type(a)(list(a) + list(b))
    if op == "Add" and type(a).__name__ == "CompList" and (isinstance(b, list) or type(b).__name__ == "CompList"):
        # a comprehension over symbolic dicts followed by more elements: the same summary with one more part
        from .values import CompList

        out = CompList(a.skolems, a.guard, a.elems)
        out.extra = list(a.extra) + [b]
        return out
    if isinstance(a, list) and isinstance(b, SymList) and op == "Add":
        pre = [lift(force(x))[1] for x in a]
        k = len(pre)

        def getf(i, _pre=pre, _b=b, _k=k):
            t = _b.elem(z3.simplify(i - _k))
            for j in range(_k - 1, -1, -1):
                t = z3.If(i == j, _pre[j], t)
            return t

        return SymList(z3.simplify(b.len_t + k), getf)
    ka, ta = _kind_term(a)
    kb, tb = _kind_term(b)
    if ka == "str" and kb == "str" and op == "Add":
        return mk("str", lawbook(it.ctx).concat([ta, tb]))
    if ka == "str" and op == "Mod":
        raise Unsupported("% formatting with symbolic operands")
    if ka in ("int", "bool") and kb in ("int", "bool"):
        ta = ta if ka == "int" else z3.If(ta, 1, 0)
        tb = tb if kb == "int" else z3.If(tb, 1, 0)
        if op == "Add":
            return mk("int", ta + tb)
        if op == "Sub":
            return mk("int", ta - tb)
        if op == "Mult":
            return mk("int", ta * tb)
        if op in ("FloorDiv", "Mod"):
            if not it.branch(tb != 0, node):
                it.raise_(ZeroDivisionError, "integer division or modulo by zero", node=node)
            # Python floor semantics; z3 div/mod are Euclidean: equal for positive divisors
            if not it.branch(tb > 0, node):
                raise Unsupported("floor division by a negative symbolic divisor")
            return mk("int", ta / tb if op == "FloorDiv" else ta % tb)
        if op == "Div":
            if not it.branch(tb != 0, node):
                it.raise_(ZeroDivisionError, "division by zero", node=node)
            return SV("real", z3.ToReal(ta) / z3.ToReal(tb))
    if "real" in (ka, kb) and ka in ("int", "real") and kb in ("int", "real"):
        ra = z3.ToReal(ta) if ka == "int" else ta
        rb = z3.ToReal(tb) if kb == "int" else tb
        if op == "Add":
            return SV("real", ra + rb)
        if op == "Sub":
            return SV("real", ra - rb)
        if op == "Mult":
            return SV("real", ra * rb)
        if op == "Div":
            if not it.branch(rb != 0, node):
                it.raise_(ZeroDivisionError, "float division by zero", node=node)
            return SV("real", ra / rb)
    if ka == "str" and kb in ("int",) and op == "Add":
        it.raise_(TypeError, "can only concatenate str (not \"int\") to str", node=node)
    raise Unsupported(f"binary {op} on kinds {ka}, {kb}")


def _is_bytes(v):
    return isinstance(v, (bytes, bytearray))


def _seq_term(v, elem_kind=None):
    if isinstance(v, (list, tuple)) and elem_kind is not None and elem_kind != "byte":
        from .core import to_kind

        sort = z3.SeqSort(KIND_SORT[elem_kind])
        t = z3.Empty(sort)
        for x in v:
            t = z3.Concat(t, z3.Unit(to_kind(force(x), elem_kind)))
        return t
    if isinstance(v, SeqVal):
        return v.term
    if isinstance(v, SV) and v.kind in ("bytes", "qstr"):
        return v.term
    if _is_bytes(v):
        return lift(bytes(v))[1]
    if isinstance(v, SeqRef):
        return v.term()
    raise Unsupported(f"sequence operand {type(v).__name__}")


def _kind_term(v):
    if isinstance(v, (SV,) + CONCRETE_SCALARS) and v is not None:
        return lift(v)
    raise Unsupported(f"operand of type {type(v).__name__}")


def unop(it, op, v, node=None):
    v = specialize(it, v, node)
    if not isinstance(v, SV):
        if op == "USub":
            return -v
        if op == "UAdd":
            return +v
        if op == "Invert":
            return ~v
    if isinstance(v, SV) and v.kind == "int":
        if op == "USub":
            return mk("int", -v.term)
        if op == "UAdd":
            return v
    if isinstance(v, SV) and v.kind == "real" and op == "USub":
        return SV("real", -v.term)
    raise Unsupported(f"unary {op}")


# --------------------------------------------------------------------------- comparison
def eq_term(it, a, b, node=None):
    """a == b as a Python bool or a z3 Bool."""
    a = force(a)
    b = force(b)
    if any(type(x).__name__ == "AwVer" for x in (a, b)):
        raise Unsupported("== on a symbolic AwesomeVersion")
    # a bytes-valued scalar field read from the heap is the same thing as a byte sequence value
    if isinstance(a, SV) and a.kind == "bytes":
        a = SeqVal("byte", a.term, "bytes")
    if isinstance(b, SV) and b.kind == "bytes":
        b = SeqVal("byte", b.term, "bytes")
    if a is b and not isinstance(a, SV):
        if not isinstance(a, float):
            return True
    if isinstance(a, SV) and a.kind == "any" and isinstance(b, SV) and b.kind == "any":
        return a.term == b.term
    if isinstance(a, SV) and a.kind == "any":
        if b is None:
            return PYVAL.is_none(a.term)
        if is_scalar(b):
            try:
                return a.term == to_any(b)
            except Unsupported:
                return False
        return False
    if isinstance(b, SV) and b.kind == "any":
        return eq_term(it, b, a, node)
    if a is None or b is None:
        return a is None and b is None
    if isinstance(a, (Row,)) and isinstance(b, Row):
        if a.prefix != b.prefix:
            return False
        return a.same_key(b)
    if isinstance(a, (Obj, Row, BoundMethod, IFunc, ModelFn, Opaque)) or isinstance(
        b, (Obj, Row, BoundMethod, IFunc, ModelFn, Opaque)
    ):
        return a is b
    if isinstance(a, (tuple, list)) and isinstance(b, (tuple, list)) and type(a) is type(b):
        if len(a) != len(b):
            return False
        conj = []
        for x, y in zip(a, b):
            e = eq_term(it, x, y, node)
            if isinstance(e, bool):
                if not e:
                    return False
            else:
                conj.append(e)
        return z3.And(conj) if conj else True
    if isinstance(a, MapRef) and isinstance(b, dict) and not b:
        return z3.Not(a.nonempty())
    if isinstance(b, MapRef) and isinstance(a, dict) and not a:
        return z3.Not(b.nonempty())
    if isinstance(a, MapRef) and isinstance(b, MapRef):
        return a.same_as(b)
    if isinstance(a, (SeqVal, SeqRef)) or isinstance(b, (SeqVal, SeqRef)):
        if isinstance(a, (SeqVal, SeqRef, bytes, bytearray)) and isinstance(b, (SeqVal, SeqRef, bytes, bytearray)):
            return _seq_term(a) == _seq_term(b)
        if isinstance(a, (SeqVal, SeqRef)) and isinstance(b, (list, tuple, collections.deque)):
            a, b = b, a
        if isinstance(b, (SeqVal, SeqRef)) and isinstance(a, (list, tuple, collections.deque)):
            tb = _seq_term(b)
            ek = b.elem_kind if isinstance(b, SeqVal) else b.kind
            t = z3.Empty(tb.sort())
            for x in a:
                t = z3.Concat(t, z3.Unit(lift(x)[1]))
            return tb == t
        if isinstance(a, SV) or isinstance(b, SV):
            raise Unsupported(f"== between a sequence and a symbolic {a.kind if isinstance(a, SV) else b.kind}")
        return False
    if is_scalar(a) and is_scalar(b):
        if all_concrete([a, b]):
            return a == b
        ka, ta = lift(a)
        kb, tb = lift(b)
        if ka == kb:
            return ta == tb
        if {ka, kb} == {"int", "bool"}:
            ta = ta if ka == "int" else z3.If(ta, 1, 0)
            tb = tb if kb == "int" else z3.If(tb, 1, 0)
            return ta == tb
        if {ka, kb} == {"int", "real"}:
            ta = z3.ToReal(ta) if ka == "int" else ta
            tb = z3.ToReal(tb) if kb == "int" else tb
            return ta == tb
        return False
    if all_concrete([a, b]):
        return a == b
    if type(a) is not type(b) and all_concrete([a]) != all_concrete([b]):
        if not any(type(x).__name__ in ("SymList", "LazyMap", "CompList", "DictView") for x in (a, b)):
            return False
    raise Unsupported(f"== between {type(a).__name__} and {type(b).__name__}")


def _bool_val(t):
    if isinstance(t, bool):
        return t
    return mk("bool", t)


def compare(it, op, a, b, node=None):
    a = force(a)
    b = force(b)
    if op in ("Is", "IsNot"):
        r = is_term(it, a, b)
        if op == "IsNot":
            r = (not r) if isinstance(r, bool) else z3.Not(r)
        return _bool_val(r)
    if op in ("Eq", "NotEq"):
        r = eq_term(it, a, b, node)
        if op == "NotEq":
            r = (not r) if isinstance(r, bool) else z3.Not(r)
        return _bool_val(r)
    if op in ("In", "NotIn"):
        r = contains(it, b, a, node)
        if op == "NotIn":
            r = (not r) if isinstance(r, bool) else z3.Not(r)
        return _bool_val(r)
    a = specialize(it, a, node)
    b = specialize(it, b, node)
    if all_concrete([a, b]):
        import operator

        f = {"Lt": operator.lt, "LtE": operator.le, "Gt": operator.gt, "GtE": operator.ge}[op]
        try:
            return f(a, b)
        except Exception as exc:  # pylint: disable=broad-except
            raise PyRaise(ExcVal(type(exc), exc.args, site=it.site(node))) from None
    # rich comparison on objects (AwesomeVersion etc.) is modelled
    if any(type(x).__name__ in ("AwVer", "AwesomeVersion") for x in (a, b)):
        return it.aw_compare(it, op, a, b, node)
    for x in (a, b):
        if isinstance(x, (Obj, Row)) or (not is_scalar(x)):
            m = it.type_models.get(type(x).__name__ if not isinstance(x, (Obj, Row)) else x.pycls.__name__)
            if m is not None and hasattr(m, "compare"):
                return m.compare(it, op, a, b, node)
            raise Unsupported(f"ordering comparison on {type(x).__name__}")
    if a is None or b is None:
        it.raise_(TypeError, f"'{op}' not supported between instances", node=node)
    ka, ta = lift(a)
    kb, tb = lift(b)
    if ka == "bool":
        ka, ta = "int", z3.If(ta, 1, 0)
    if kb == "bool":
        kb, tb = "int", z3.If(tb, 1, 0)
    if ka in ("int", "real") and kb in ("int", "real"):
        if ka != kb:
            ta = z3.ToReal(ta) if ka == "int" else ta
            tb = z3.ToReal(tb) if kb == "int" else tb
        r = {"Lt": ta < tb, "LtE": ta <= tb, "Gt": ta > tb, "GtE": ta >= tb}[op]
        return _bool_val(r)
    if ka == "str" and kb == "str":
        raise Unsupported("ordering comparison on symbolic strings")
    it.raise_(TypeError, f"'{op}' not supported between instances of '{ka}' and '{kb}'", node=node)


def is_term(it, a, b):
    if isinstance(a, SV) and a.kind == "any" and b is None:
        return PYVAL.is_none(a.term)
    if isinstance(b, SV) and b.kind == "any" and a is None:
        return PYVAL.is_none(b.term)
    if a is None or b is None:
        return a is None and b is None
    if isinstance(a, Row) and isinstance(b, Row):
        if a.prefix != b.prefix:
            return False
        return a.same_key(b)
    if isinstance(a, bool) or isinstance(b, bool):
        if isinstance(a, SV) and a.kind == "bool":
            return a.term == z3.BoolVal(b)
        if isinstance(b, SV) and b.kind == "bool":
            return b.term == z3.BoolVal(a)
        return a is b
    if isinstance(a, SV) or isinstance(b, SV):
        raise Unsupported("`is` on symbolic scalars")
    return a is b


def contains(it, container, item, node=None):
    """item in container"""
    container = force(container)
    item = force(item)
    from .loops import VisitedSet

    if isinstance(container, VisitedSet):
        kt = _int_term(it, item, node)
        it.ctx.add_index_term(container.role, kt)
        return z3.Select(container.term, kt)
    if isinstance(container, MapRef):
        item = specialize(it, item, node)
        if item is None or (isinstance(item, SV) and item.kind not in ("int", "bool")) or isinstance(item, str):
            if container.spec.arity == 1:
                return False
        return container.contains(item)
    if isinstance(container, DictView):
        if container.mode == "keys":
            return contains(it, container.mapref, item, node)
        raise Unsupported("`in` on values()/items()")
    if isinstance(container, (list, tuple, set, frozenset, collections.deque)):
        if all_concrete([item]) and all_concrete(list(container)):
            return item in container
        disj = []
        for x in container:
            e = eq_term(it, item, x, node)
            if isinstance(e, bool):
                if e:
                    return True
            else:
                disj.append(e)
        return z3.Or(disj) if disj else False
    if isinstance(container, dict):
        if all_concrete([item]):
            try:
                return item in container
            except TypeError as exc:
                raise PyRaise(ExcVal(TypeError, exc.args, site=it.site(node))) from None
        item = specialize(it, item, node)
        disj = []
        for x in container.keys():
            e = eq_term(it, item, x, node)
            if isinstance(e, bool):
                if e:
                    return True
            else:
                disj.append(e)
        return z3.Or(disj) if disj else False
    if isinstance(container, (SV, str)) and (isinstance(item, (SV, str))):
        kc, tc = lift(container)
        ki, ti = lift(item)
        if kc == "str" and ki == "str":
            return lawbook(it.ctx).contains(tc, ti)
    if isinstance(container, (SeqVal, SeqRef, bytes, bytearray)):
        tc = _seq_term(container)
        if isinstance(item, (SeqVal, bytes, bytearray)):
            return z3.Contains(tc, _seq_term(item))
        ek = container.elem_kind if isinstance(container, SeqVal) else getattr(container, "kind", "byte")
        if ek in KIND_SORT:
            return z3.Contains(tc, z3.Unit(lift(item)[1]))
    if isinstance(container, (Obj, Row)):
        raise Unsupported("`in` on an object")
    if all_concrete([container, item]):
        return item in container
    raise Unsupported(f"`in` on {type(container).__name__}")


# --------------------------------------------------------------------------- enum call
def enum_call(it, cls, args, node=None):
    if len(args) != 1:
        raise Unsupported("enum call arity")
    v = specialize(it, args[0], node)
    if not isinstance(v, SV):
        try:
            return cls(v)
        except ValueError as exc:
            raise PyRaise(ExcVal(ValueError, exc.args, site=it.site(node))) from None
    if v.kind != "int":
        it.raise_(ValueError, f"not a valid {cls.__name__}", node=node)
    members = []
    seen = set()
    for m in cls:  # canonical members only (aliases resolve to them, as in CPython)
        if m.value not in seen:
            seen.add(m.value)
            members.append(m)
    conds = [v.term == m.value for m in members]
    conds.append(z3.And([v.term != m.value for m in members]) if members else z3.BoolVal(True))
    k = it.ctx.choose(conds, labels=[m.name for m in members] + ["<none>"], site=it.site(node))
    if k == len(members):
        it.raise_(ValueError, f"{v} is not a valid {cls.__name__}", node=node)
    return members[k]


# --------------------------------------------------------------------------- iteration / unpack
def iter_concrete(it, v, node=None):
    if isinstance(v, (list, tuple)):
        return list(v)
    if isinstance(v, dict):
        return list(v.keys())
    if isinstance(v, (LazyMap, SymList)):
        raise Unsupported("iteration over a list of symbolic length")
    if all_concrete([v]):
        try:
            return list(v)
        except TypeError as exc:
            raise PyRaise(ExcVal(TypeError, exc.args, site=it.site(node))) from None
    raise Unsupported(f"concrete iteration over {type(v).__name__}")


def unpack(it, v, n, node=None):
    v = force(v)
    v = specialize(it, v, node)
    if isinstance(v, (tuple, list)):
        if len(v) != n:
            it.raise_(ValueError, f"not enough/too many values to unpack (expected {n})", node=node)
        return list(v)
    if isinstance(v, LazyMap):
        ln = v.src.len_t
        if not it.branch(ln == n, node):
            it.raise_(ValueError, f"not enough/too many values to unpack (expected {n})", node=node)
        return [v.body(mk("str", v.src.elem(i))) for i in range(n)]
    if isinstance(v, SymList):
        if not it.branch(v.len_t == n, node):
            it.raise_(ValueError, f"not enough/too many values to unpack (expected {n})", node=node)
        return [mk("str", v.elem(i)) for i in range(n)]
    if isinstance(v, (SeqVal, SeqRef)):
        t = _seq_term(v)
        if not it.branch(z3.Length(t) == n, node):
            it.raise_(ValueError, f"not enough/too many values to unpack (expected {n})", node=node)
        sv = v if isinstance(v, SeqVal) else SeqVal(v.kind, t)
        return [seq_elem(it, sv, i) for i in range(n)]
    if v is None:
        it.raise_(TypeError, "cannot unpack non-iterable NoneType object", node=node)
    if all_concrete([v]):
        try:
            items = list(v)
        except TypeError as exc:
            raise PyRaise(ExcVal(TypeError, exc.args, site=it.site(node))) from None
        if len(items) != n:
            it.raise_(ValueError, f"not enough/too many values to unpack (expected {n})", node=node)
        return items
    raise Unsupported(f"unpacking {type(v).__name__}")


def seq_elem(it, sv: SeqVal, i):
    """Element i (Python int or Int term, already known in range) of a symbolic sequence."""
    ti = i if not isinstance(i, SV) else i.term
    if isinstance(ti, int):
        ti = z3.IntVal(ti)
    if sv.elem_kind == "byte":
        return mk("int", z3.BV2Int(sv.term[ti]))
    return mk(sv.elem_kind, sv.term[ti])


def make_set(it, items):
    if all_concrete(items):
        return set(items)
    raise Unsupported("set display with symbolic members")


def await_value(it, v, node=None):
    from .values import Awaitable, Coro

    if isinstance(v, Coro):
        return it.run_coro(v, node)
    if isinstance(v, Awaitable):
        return v.on_await(it)
    if hasattr(v, "_pyvc_await"):
        return v._pyvc_await(it)
    return v


# --------------------------------------------------------------------------- slicing helpers
def norm_index(t, ln):
    """Python slice bound normalisation: negative wraps, then clamps into [0, len]."""
    return z3.If(t < 0, z3.If(ln + t < 0, z3.IntVal(0), ln + t), z3.If(t > ln, ln, t))


def slice_seq(it, term, sl, node=None):
    if sl.step is not None:
        raise Unsupported("slice step")
    ln = z3.Length(term)
    lo = z3.IntVal(0) if sl.start is None else norm_index(_int_term(it, sl.start, node), ln)
    hi = ln if sl.stop is None else norm_index(_int_term(it, sl.stop, node), ln)
    n = z3.If(hi - lo < 0, z3.IntVal(0), hi - lo)
    return z3.simplify(z3.SubSeq(term, lo, n))


def _int_term(it, v, node=None):
    v = specialize(it, v, node)
    if isinstance(v, bool):
        return z3.IntVal(int(v))
    if isinstance(v, (int, enum.IntEnum)):
        return z3.IntVal(int(v))
    if isinstance(v, SV) and v.kind == "int":
        return v.term
    it.raise_(TypeError, "indices must be integers", node=node)


def str_slice(it, t, lo, hi):
    """t[lo:hi] for normalised bounds 0 <= lo <= hi <= len(t): uninterpreted, with the S-laws
    len = hi - lo, prefix + slice + suffix = t (instantiated), full slice = identity."""
    from .laws import s_slice

    lb = lawbook(it.ctx)
    ln = lb.length(t)
    r = s_slice(t, lo, hi)
    if lb._once("slice", t, lo, hi):
        c = it.ctx
        c.add_fact(lb.length(r) == hi - lo)
        c.add_fact(z3.Implies(z3.And(lo == 0, hi == ln), r == t))
        c.add_fact(z3.Implies(lo == 0, lb.concat([r, s_slice(t, hi, ln)]) == t))
        c.add_fact(lb.length(s_slice(t, hi, ln)) == ln - hi)
    return r


# --------------------------------------------------------------------------- subscripts
def getitem(it, obj, idx, node=None):
    obj = force(obj)
    idx = force(idx)
    obj = specialize(it, obj, node)
    from .loops import GhostArr

    if isinstance(obj, GhostArr):
        kt = _int_term(it, idx, node)
        it.ctx.add_index_term(obj.roles[0], kt)
        sub = z3.Select(obj.term, kt)
        if len(obj.roles) > 1:
            return GhostArr(sub, obj.roles[1:], obj.kind)
        return mk(obj.kind, sub)
    if isinstance(obj, MapRef):
        idx = specialize(it, idx, node) if not isinstance(idx, tuple) else idx
        if not it.formula_mode:
            c = contains(it, obj, idx, node)
            if not it.branch(c, node):
                it.raise_(KeyError, "key", node=node)
        return obj.read(idx)
    if isinstance(obj, Row):
        if obj.cls.kind == "rec" and isinstance(idx, str):
            if not obj.has_field(idx):
                it.raise_(KeyError, idx, node=node)
            return obj.get_field(idx)
        raise Unsupported("subscript on an object row")
    if isinstance(obj, SV) and obj.kind == "bytes":
        obj = SeqVal("byte", obj.term, "bytes")
    if isinstance(obj, (SeqVal, SeqRef)):
        sv = obj if isinstance(obj, SeqVal) else SeqVal(obj.kind, obj.term())
        if isinstance(idx, slice):
            r = SeqVal(sv.elem_kind, slice_seq(it, sv.term, idx, node), sv.pytype)
            return r
        ti = _int_term(it, idx, node)
        ln = z3.Length(sv.term)
        if not it.branch(z3.And(ti >= -ln, ti < ln), node):
            it.raise_(IndexError, "index out of range", node=node)
        ti = z3.simplify(z3.If(ti < 0, ln + ti, ti))
        return seq_elem(it, sv, SV("int", ti))
    if isinstance(obj, SymList):
        ln = obj.len_t
        if isinstance(idx, slice):
            if idx.step is not None:
                raise Unsupported("slice step")
            lo = z3.IntVal(0) if idx.start is None else norm_index(_int_term(it, idx.start, node), ln)
            hi = ln if idx.stop is None else norm_index(_int_term(it, idx.stop, node), ln)
            n = z3.simplify(z3.If(hi - lo < 0, z3.IntVal(0), hi - lo))
            lo = z3.simplify(lo)
            return SymList(n, lambda i, _o=obj, _lo=lo: _o.elem(z3.simplify(_lo + i)))
        ti = _int_term(it, idx, node)
        if not it.formula_mode and not it.branch(z3.And(ti >= -ln, ti < ln), node):
            it.raise_(IndexError, "list index out of range", node=node)
        ti = z3.simplify(z3.If(ti < 0, ln + ti, ti))
        return mk("str", obj.elem(ti))
    if isinstance(obj, LazyMap):
        raise Unsupported("subscript on lazily mapped list")
    if isinstance(obj, (SV, str)) and (lift(obj)[0] == "str"):
        t = lift(obj)[1]
        if all_concrete([obj, idx] if not isinstance(idx, slice) else [obj, idx.start, idx.stop, idx.step]):
            try:
                return obj[idx]
            except IndexError as exc:
                raise PyRaise(ExcVal(IndexError, exc.args, site=it.site(node))) from None
        from .laws import s_slice

        lb = lawbook(it.ctx)
        ln = lb.length(t)
        if isinstance(idx, slice):
            if idx.step is not None:
                raise Unsupported("slice step")
            if idx.start is None and isinstance(idx.stop, int) and idx.stop < 0:
                # s[:-k] where s visibly ends in literal text of at least k characters: cut it structurally
                from .laws import flatten
                from .core import lit_value, strlit

                parts = flatten(t)
                k = -idx.stop
                out = list(parts)
                while k > 0 and out and lit_value(out[-1]) is not None:
                    lv = lit_value(out[-1])
                    if len(lv) <= k:
                        k -= len(lv)
                        out.pop()
                    else:
                        out[-1] = strlit(lv[:-k])
                        k = 0
                if k == 0:
                    return mk("str", lb.concat(out) if out else strlit(""))
            lo = z3.IntVal(0) if idx.start is None else norm_index(_int_term(it, idx.start, node), ln)
            hi = ln if idx.stop is None else norm_index(_int_term(it, idx.stop, node), ln)
            hi = z3.simplify(z3.If(hi < lo, lo, hi))
            lo = z3.simplify(lo)
            return mk("str", str_slice(it, t, lo, hi))
        ti = _int_term(it, idx, node)
        if not it.branch(z3.And(ti >= -ln, ti < ln), node):
            it.raise_(IndexError, "string index out of range", node=node)
        ti = z3.simplify(z3.If(ti < 0, ln + ti, ti))
        return mk("str", str_slice(it, t, ti, ti + 1))
    if isinstance(obj, (bytes, bytearray)) and not all_concrete([idx.start if isinstance(idx, slice) else idx, idx.stop if isinstance(idx, slice) else None]):
        return getitem(it, SeqVal("byte", lift(bytes(obj))[1], "bytes"), idx, node)
    if isinstance(obj, (list, tuple, collections.deque)):
        if isinstance(idx, slice):
            if all_concrete([idx.start, idx.stop, idx.step]):
                return obj[idx]
            raise Unsupported("symbolic slice of a concrete list")
        if isinstance(idx, SV):
            raise Unsupported("symbolic index into a concrete list")
        try:
            return obj[idx]
        except (IndexError, TypeError) as exc:
            raise PyRaise(ExcVal(type(exc), exc.args, site=it.site(node))) from None
    if isinstance(obj, dict):
        if isinstance(idx, SV) or (isinstance(idx, tuple) and not all_concrete([idx])):
            return dict_lookup_sym(it, obj, idx, node)
        try:
            return obj[idx]
        except (KeyError, TypeError) as exc:
            raise PyRaise(ExcVal(type(exc), exc.args, site=it.site(node))) from None
    if obj is None:
        it.raise_(TypeError, "'NoneType' object is not subscriptable", node=node)
    if isinstance(obj, (Obj,)):
        gi = it.class_lookup(obj.pycls, "__getitem__")
        if gi is not None:
            return it.call(BoundMethod(obj, gi[1], gi[0]), [idx], {}, node)
        it.raise_(TypeError, "object is not subscriptable", node=node)
    if all_concrete([obj, idx]):
        try:
            return obj[idx]
        except Exception as exc:  # pylint: disable=broad-except
            raise PyRaise(ExcVal(type(exc), exc.args, site=it.site(node))) from None
    raise Unsupported(f"subscript on {type(obj).__name__}")


def dict_lookup_sym(it, d, key, node=None, default=KeyError):
    """Concrete dict, symbolic key: fork over the keys."""
    keys = list(d.keys())
    conds = []
    for k in keys:
        e = eq_term(it, key, k, node)
        conds.append(z3.BoolVal(e) if isinstance(e, bool) else e)
    # mutually exclusive version (first match wins; keys of a dict are distinct anyway)
    excl = []
    for i, c in enumerate(conds):
        excl.append(c)
    none = z3.And([z3.Not(c) for c in conds]) if conds else z3.BoolVal(True)
    k = it.ctx.choose(excl + [none], labels=[str(x) for x in keys] + ["<absent>"], site=it.site(node))
    if k == len(keys):
        if default is KeyError:
            it.raise_(KeyError, "key", node=node)
        return default
    return d[keys[k]]


def setitem(it, obj, idx, v, node=None):
    if isinstance(obj, MapRef):
        if obj.world.frozen:
            raise Unsupported("write through an old-state reference")
        idx = specialize(it, idx, node) if not isinstance(idx, tuple) else idx
        if it.write_log is not None:
            it.write_log.append((obj.prefix, "item"))
        obj.write(idx, v)
        return
    if isinstance(obj, Row) and obj.cls.kind == "rec":
        obj.set_field(idx, v)
        return
    if isinstance(obj, SymList):
        ti = _int_term(it, idx, node)
        ln = obj.len_t
        if not it.branch(z3.And(ti >= -ln, ti < ln), node):
            it.raise_(IndexError, "list assignment index out of range", node=node)
        ti = z3.simplify(z3.If(ti < 0, ln + ti, ti))
        obj.with_item(ti, lift(force(v))[1])
        return
    if isinstance(obj, dict):
        it.guard_write(obj, node, key=idx, value=v)
        if isinstance(idx, SV):
            raise Unsupported("symbolic key stored into a concrete dict")
        obj[idx] = v
        return
    if isinstance(obj, list):
        it.guard_write(obj, node)
        if isinstance(idx, SV):
            raise Unsupported("symbolic index stored into a concrete list")
        try:
            obj[idx] = v
        except IndexError as exc:
            raise PyRaise(ExcVal(IndexError, exc.args, site=it.site(node))) from None
        return
    if isinstance(obj, Obj):
        si = it.class_lookup(obj.pycls, "__setitem__")
        if si is not None:
            it.call(BoundMethod(obj, si[1], si[0]), [idx, v], {}, node)
            return
    raise Unsupported(f"item assignment on {type(obj).__name__}")


def delitem(it, obj, idx, node=None):
    if isinstance(obj, MapRef):
        c = contains(it, obj, idx, node)
        if not it.branch(c, node):
            it.raise_(KeyError, "key", node=node)
        obj.set_dom(idx, False)
        return
    if isinstance(obj, dict):
        it.guard_write(obj, node)
    if isinstance(obj, dict) and all_concrete([idx]):
        try:
            del obj[idx]
        except KeyError as exc:
            raise PyRaise(ExcVal(KeyError, exc.args, site=it.site(node))) from None
        return
    raise Unsupported("del on this container")


# --------------------------------------------------------------------------- attributes
def getattr_(it, obj, name, node=None):
    obj = force(obj)
    from .interp import SuperProxy

    am = it.attr_models.get((type(obj).__name__, name))
    if am is not None:
        return am(it, obj, node)
    if isinstance(obj, SV) and obj.kind == "any":
        obj = specialize(it, obj, node)
    from .contract import NS

    if isinstance(obj, NS):
        if name in obj.d:
            return obj.d[name]
        if obj.parent is not None:
            return obj.parent.lookup(name)
        it.raise_(AttributeError, f"no local/ghost named {name}", node=node)
    if isinstance(obj, Obj):
        if name in obj.fields:
            v = obj.fields[name]
            if type(v).__name__ == "LazyField":
                v = v.fn(it)
                obj.fields[name] = v
            elif type(v).__name__ == "VolatileField":
                return v.read(it)
            return v
        if name == "__dict__":
            return obj.fields
        if name == "__class__":
            return obj.pycls
        return class_attr(it, obj, obj.pycls, name, node)
    if isinstance(obj, Row):
        if obj.cls.kind == "obj" and obj.has_field(name):
            return obj.get_field(name)
        if name == "__class__":
            return obj.pycls
        if obj.pycls is None:
            it.raise_(AttributeError, name, node=node)
        return class_attr(it, obj, obj.pycls, name, node)
    from .values import Modelled

    if isinstance(obj, Modelled):
        if name in obj.attrs:
            v = obj.attrs[name]
            return v
        raise Unsupported(f"attribute {name} of modelled object {obj.name}")
    if hasattr(obj, "_pyvc_attr"):
        return obj._pyvc_attr(it, name)
    if isinstance(obj, SuperProxy):
        found = it.class_lookup(type_of(obj.self_val), name, after=obj.defcls)
        if found is None:
            it.raise_(AttributeError, name, node=node)
        klass, raw = found
        return bind_class_attr(it, obj.self_val, klass, raw, name, node)
    from . import models

    m = models.method_model(it, obj, name)
    if m is not None:
        return m
    if obj is None:
        it.raise_(AttributeError, f"'NoneType' object has no attribute '{name}'", node=node)
    if isinstance(obj, ExcVal):
        if name == "args":
            return obj.args
        if isinstance(obj.cls, type) and not hasattr(obj.cls, name):
            # the class of the exception value is known: it has no such attribute
            it.raise_(AttributeError, f"'{obj.cls.__name__}' object has no attribute '{name}'", node=node)
        if isinstance(obj.cls, type) and all(isinstance(x, (str, int, float, bytes, type(None))) for x in obj.args):
            try:
                v = getattr(obj.cls(*obj.args), name)
            except Exception:  # pylint: disable=broad-except
                raise Unsupported(f"attribute {name} of an exception value") from None
            if isinstance(v, (str, int, float, bytes, type(None))):
                return v
        raise Unsupported(f"attribute {name} of an exception value")
    if isinstance(obj, (SV, SeqVal, SeqRef, MapRef, LazyMap, DictView)):
        raise Unsupported(f"attribute {name} on {obj!r}")
    if isinstance(obj, (IFunc, BoundMethod, ModelFn, Opaque)):
        raise Unsupported(f"attribute {name} on {obj!r}")
    try:
        return getattr(obj, name)
    except AttributeError as exc:
        raise PyRaise(ExcVal(AttributeError, exc.args, site=it.site(node))) from None


def type_of(v):
    if isinstance(v, (Obj, Row)):
        return v.pycls
    return type(v)


def class_attr(it, selfv, pycls, name, node=None):
    found = it.class_lookup(pycls, name)
    if found is None:
        if isinstance(selfv, Obj) and it.stack and _assigned_on_self(it, pycls, name):
            # the class keeps instance state under this name, but the contract's pre-state does not describe it:
            # state outside the contract (like module-level state) - a failed frame obligation, not an AttributeError
            it.hidden_state(f"{pycls.__module__}:{pycls.__name__}.{name}", node)
        it.raise_(AttributeError, f"'{pycls.__name__}' object has no attribute '{name}'", node=node)
    klass, raw = found
    return bind_class_attr(it, selfv, klass, raw, name, node)


_SELF_ATTRS = {}


def _assigned_on_self(it, pycls, name):
    """does any method of the class (or of its interpreted bases) assign self.<name>?"""
    import ast
    import inspect
    import textwrap

    for klass in getattr(pycls, "__mro__", ()):
        if not it.is_interpreted_class(klass):
            continue
        names = _SELF_ATTRS.get(klass)
        if names is None:
            names = set()
            try:
                tree = ast.parse(textwrap.dedent(inspect.getsource(klass)))
            except (OSError, TypeError, SyntaxError):
                tree = None
            if tree is not None:
                for n in ast.walk(tree):
                    if isinstance(n, ast.Attribute) and isinstance(n.ctx, ast.Store) and isinstance(n.value, ast.Name) and n.value.id == "self":
                        names.add(n.attr)
            _SELF_ATTRS[klass] = names
        if name in names:
            return True
    return False


def bind_class_attr(it, selfv, klass, raw, name, node=None):
    if isinstance(raw, types.FunctionType):
        return BoundMethod(selfv, raw, klass)
    if isinstance(raw, property):
        if raw.fget is None:
            it.raise_(AttributeError, name, node=node)
        return it.call_function(raw.fget, [selfv], {}, defcls=klass, node=node)
    if isinstance(raw, staticmethod):
        return raw.__func__
    if isinstance(raw, classmethod):
        return BoundMethod(type_of(selfv), raw.__func__, klass)
    mm = it.models.get(id(raw))
    if mm is not None:
        return ModelFn(mm.name, lambda it2, a, k, _m=mm, _s=selfv: _m.fn(it2, [_s] + a, k))
    if isinstance(raw, (types.WrapperDescriptorType, types.MethodDescriptorType, types.BuiltinFunctionType)):
        raise Unsupported(f"builtin slot {klass.__name__}.{name} on an interpreted object")
    return raw


def setattr_(it, obj, name, v, node=None):
    if isinstance(obj, (Obj, Row)):
        pycls = obj.pycls
        found = it.class_lookup(pycls, name) if pycls is not None else None
        if found is not None and isinstance(found[1], property):
            prop = found[1]
            if prop.fset is None:
                it.raise_(AttributeError, f"can't set attribute '{name}'", node=node)
            it.call_function(prop.fset, [obj, v], {}, defcls=found[0], node=node)
            return
        if isinstance(obj, Obj):
            if it.write_log is not None:
                it.write_log.append((id(obj), name))
            obj.fields[name] = v
            return
        if obj.world.frozen:
            raise Unsupported("write through an old-state reference")
        if not obj.has_field(name):
            raise Unsupported(f"undeclared field {obj.cls.name}.{name} (schema)")
        if it.write_log is not None:
            it.write_log.append((obj.prefix, name))
        obj.set_field(name, v)
        return
    if obj is None:
        it.raise_(AttributeError, f"'NoneType' object has no attribute '{name}'", node=node)
    from .values import Modelled

    if isinstance(obj, Modelled):
        obj.attrs[name] = v
        return
    if isinstance(obj, (SV, MapRef, SeqVal, SeqRef)):
        it.raise_(AttributeError, f"object has no attribute '{name}'", node=node)
    raise Unsupported(f"attribute store on concrete {type(obj).__name__}.{name}")
