"""Run the obligations of one property, decide, write evidence and replays."""
from __future__ import annotations

import concurrent.futures as cf
import hashlib
import importlib
import json
import os
import sys
import time
import traceback

import z3

EXIT_OK, EXIT_VIOLATION, EXIT_UNDECIDED, EXIT_ERROR = 0, 1, 2, 3

VERIF = os.path.realpath(os.path.join(os.path.dirname(__file__), ".."))

CONTRACT_MODULES = [
    "contracts.c06_ids",
]


def load_contracts():
    from . import contract as C

    sys.path.insert(0, VERIF) if VERIF not in sys.path else None
    from . import verify

    verify.ensure_repo_on_path()
    mods = []
    import contracts

    for m in getattr(contracts, "MODULES", CONTRACT_MODULES):
        mods.append(importlib.import_module(m))
    out = []
    for target, lst in C.REGISTRY.items():
        for cc in lst:
            out.append(cc)
    return out


def tasks_for(prop, tier):
    out = []
    for cc in load_contracts():
        props = cc.meta.get("props", [])
        if prop not in props:
            continue
        cfgs = getattr(cc, "configs", None)
        if cfgs is None:
            cfgs = [{}]
        if callable(cfgs):
            cfgs = cfgs(tier)
        from . import contract as C

        idx = C.REGISTRY[cc.target].index(cc)
        for cfg in cfgs:
            out.append((cc.target, idx, cfg))
    return out


def _ob_key(ob):
    h = hashlib.sha256()
    h.update(ob.name.encode())
    for f in ob.hyps:
        h.update(f.sexpr().encode())
    h.update(ob.goal.sexpr().encode())
    return h.hexdigest()


def run_task(job):
    """Worker: explore one contract/config and solve its obligations in-process."""
    target, cidx, cfg, timeout_ms, want_smt = job[:5]
    worklist = job[5] if len(job) > 5 else None
    slice_s = job[6] if len(job) > 6 else None
    modname, clsname = target, str(cidx)
    sys.path.insert(0, VERIF) if VERIF not in sys.path else None
    from . import solve, verify

    out = {
        "task": f"{modname}.{clsname}",
        "config": cfg,
        "obligations": [],
        "undecided": [],
        "errors": [],
        "paths": 0,
        "dead": 0,
        "inlined": [],
        "wall": 0.0,
        "solver_time": 0.0,
    }
    t0 = time.time()
    try:
        verify.ensure_repo_on_path()
        load_contracts()
        from . import contract as C

        cc = C.REGISTRY[target][cidx]
        out["task"] = f"{cc.__module__}.{cc.__name__}"
        res = verify.run_contract(cc, cfg, budget_s=getattr(cc, "budget_s", 900), name=cc.meta.get("name"), worklist=worklist, slice_s=slice_s)
        out["leftover"] = res.leftover
        out["name"] = res.name
        out["target"] = res.target
        out["source_hash"] = res.source_hash
        out["source_span"] = res.source_span
        out["undecided"] = [list(x) for x in res.undecided]
        out["errors"] = [list(x) for x in res.errors]
        out["paths"] = len(res.paths)
        out["dead"] = sum(1 for p in res.paths if p.outcome == "dead")
        out["reached_post"] = res.reached_post
        out["inlined"] = sorted({f"{m}:{q}" for (m, q) in res.inlined if m})
        out["unknown_branches"] = res.unknown_branches
        seen = {}
        uniq = []
        for ob in res.obligations:
            k = _ob_key(ob)
            if k in seen:
                continue
            seen[k] = True
            uniq.append(ob)
        results = solve.solve_all(uniq, timeout_ms=timeout_ms, workers=1, crosscheck=timeout_ms > 60000, first_ms=getattr(cc, "z3_first_ms", None))
        for ob, r in zip(uniq, results):
            rec = {
                "name": ob.name,
                "kind": ob.kind,
                "result": r["result"],
                "backend": r["backend"],
                "time": round(r["time"], 4),
                "crosscheck": r.get("crosscheck"),
                "reason": r.get("reason", ""),
                "site": ob.site,
                "meta": ob.meta,
                "trace": ob.path[-12:],
                "nhyps": len(ob.hyps),
                "config": cfg,
            }
            out["solver_time"] += r["time"]
            failing = (r["result"] == "sat") and ob.kind != "vacuity"
            if failing or want_smt:
                rec["model"] = r.get("model")
            if failing:
                rec["smt2"] = ob.smt2()
                rec["goal"] = str(ob.goal)[:2000]
                rec["full_trace"] = ob.path
            out["obligations"].append(rec)
    except Exception as e:  # pylint: disable=broad-except
        out["errors"].append([f"{modname}.{clsname}", f"{type(e).__name__}: {e}\n{traceback.format_exc(limit=8)}"])
    out["wall"] = time.time() - t0
    return out


def load_known_findings():
    fn = os.path.join(VERIF, "known_findings.jsonl")
    out = []
    if os.path.exists(fn):
        with open(fn, encoding="utf-8") as fh:
            for line in fh:
                line = line.strip()
                if line and not line.startswith("#"):
                    out.append(json.loads(line))
    return out


def matches_finding(kf, prop, rec):
    if kf.get("status") != "open":
        return False
    if kf.get("property") != prop:
        return False
    if kf.get("obligation") and kf["obligation"] not in rec["name"]:
        return False
    w = kf.get("witness") or {}
    meta = rec.get("meta") or {}
    for k, v in w.items():
        if k == "site_function":
            if v not in str(rec.get("site") or meta.get("site") or ""):
                return False
        elif k.startswith("config_"):
            if str((rec.get("config") or {}).get(k[7:])) != str(v):
                return False
        elif k == "trace_contains":
            tr = " ".join(rec.get("full_trace") or rec.get("trace") or [])
            if not all(x in tr for x in (v if isinstance(v, list) else [v])):
                return False
        elif str(meta.get(k)) != str(v):
            return False
    return True


MAX_TASK_PATHS = int(os.environ.get("PYVC_MAX_TASK_PATHS", "6000"))
MAX_TASK_CPU_S = float(os.environ.get("PYVC_MAX_TASK_CPU_S", "2400"))


def run_property(prop, tier="quick", workers=None, extra=None):
    t0 = time.time()
    seed = int(os.environ.get("VERIF_SEED", "0") or 0)
    # wall-clock budgets per obligation; generous, because verdicts must not flip when the machine is busy
    timeout_ms = 60000 if tier == "quick" else 180000
    tasks = tasks_for(prop, tier)
    workers = workers or min(16, os.cpu_count() or 4)
    results = []
    if not tasks:
        return finish(prop, tier, seed, [], t0, error="no contracts registered for this property")
    slice_s = float(os.environ.get("PYVC_SLICE_S", "25"))
    jobs = [(m, c, cfg, timeout_ms, False, None, slice_s) for (m, c, cfg) in tasks]
    if len(jobs) == 1 and workers == 1:
        results = [run_task(jobs[0][:5])]
    else:
        # Work stealing by re-submission: a worker explores its subtree for one time slice and hands the
        # unexplored decision prefixes back; they are re-queued (split in two) so that all cores stay busy.
        merged = {}
        budget = {}
        with cf.ProcessPoolExecutor(max_workers=workers) as ex:
            pending = {ex.submit(run_task, j): j for j in jobs}
            while pending:
                done, _ = cf.wait(list(pending), return_when=cf.FIRST_COMPLETED)
                for f in done:
                    j = pending.pop(f)
                    try:
                        r = f.result()
                    except Exception as e:  # pylint: disable=broad-except
                        r = {"task": str(j[0]), "config": j[2], "obligations": [], "undecided": [], "errors": [[str(j[0]), f"worker failed: {e}"]], "paths": 0}
                    left = r.pop("leftover", None) or []
                    key0 = (j[0], j[1], json.dumps(j[2], sort_keys=True))
                    spent = budget.setdefault(key0, [0, 0.0])
                    spent[0] += r.get("paths") or 0
                    spent[1] += r.get("wall") or 0.0
                    if left and (spent[0] > MAX_TASK_PATHS or spent[1] > MAX_TASK_CPU_S):
                        # the exploration of this task does not converge (e.g. a loop that lost its contract):
                        # stop feeding it, report it as undecided
                        r.setdefault("undecided", []).append([r.get("name") or str(j[0]), f"exploration budget exceeded ({spent[0]} paths, {spent[1]:.0f} s of exploration); unexplored paths remain"])
                        left = []
                    if left:
                        half = max(1, len(left) // 2)
                        for chunk in (left[:half], left[half:]):
                            if chunk:
                                nj = j[:5] + (chunk, slice_s)
                                pending[ex.submit(run_task, nj)] = nj
                    key = (j[0], j[1], json.dumps(j[2], sort_keys=True))
                    if key not in merged:
                        merged[key] = r
                    else:
                        m_ = merged[key]
                        seen_names = {(o["name"], o.get("nhyps"), str(o.get("trace"))) for o in m_["obligations"]}
                        m_["obligations"].extend(r["obligations"])
                        m_["undecided"].extend(r["undecided"])
                        m_["errors"].extend(r["errors"])
                        for k2 in ("paths", "dead", "reached_post", "unknown_branches"):
                            m_[k2] = (m_.get(k2) or 0) + (r.get(k2) or 0)
                        m_["solver_time"] = m_.get("solver_time", 0.0) + r.get("solver_time", 0.0)
                        m_["inlined"] = sorted(set(m_.get("inlined", [])) | set(r.get("inlined", [])))
                        m_["wall"] = m_.get("wall", 0.0) + r.get("wall", 0.0)
        results = list(merged.values())
    fin = run_finite(prop)
    extra = dict(extra or {})
    audit_errors = []
    try:
        from audits import laws_audit

        aud = laws_audit.run_for(prop, seed, tier)
        if aud:
            extra["bounded_standins"] = [dict(a, note="bounded audit of an assumption; not counted in obligations/discharged") for a in aud]
            for a in aud:
                if a["failed"]:
                    audit_errors.append([a["name"], "assumption audit failed: " + "; ".join(map(str, a["failed"][:3]))])
    except Exception as e:  # pylint: disable=broad-except
        audit_errors.append(["audits", f"{type(e).__name__}: {e}"])
    extra["_audit_errors"] = audit_errors
    if fin is not None:
        extra["finite_conditions"] = {
            "evaluated": len(fin),
            "holding": sum(1 for f in fin if f[1]),
            "decided_by": "exhaustive evaluation of the live tables (not SMT; not counted in obligations/discharged)",
            "failed": [f"{n}: {w}" for n, ok, w in fin if not ok][:20],
        }
    return finish(prop, tier, seed, results, t0, extra=extra, finite=fin)


def run_finite(prop):
    import contracts

    out = None
    for m in getattr(contracts, "MODULES", []):
        mod = importlib.import_module(m)
        for fn in getattr(mod, "FINITE", {}).get(prop, []):
            out = out or []
            try:
                out.extend(fn())
            except Exception as e:  # pylint: disable=broad-except
                out.append((fn.__name__, False, f"finite check crashed: {type(e).__name__}: {e}"))
    return out


def finish(prop, tier, seed, results, t0, error=None, extra=None, finite=None):
    from . import replay as RP

    known = load_known_findings()
    audit_errors = (extra or {}).pop("_audit_errors", []) if extra else []
    n_obl = n_dis = 0
    by_backend = {}
    undecided, errors, violations, known_hits = [], list(audit_errors), [], []
    vac = {}
    solver_time = 0.0
    functions = []
    paths = 0
    samples = []
    inlined = set()
    for r in results:
        paths += r.get("paths", 0)
        solver_time += r.get("solver_time", 0.0)
        for u in r["undecided"]:
            undecided.append(u)
        for e in r["errors"]:
            errors.append(e)
        inlined.update(r.get("inlined", []))
        functions.append(
            {
                "task": r.get("name") or r["task"],
                "target": r.get("target"),
                "config": r.get("config"),
                "source_hash": r.get("source_hash"),
                "source_span": r.get("source_span"),
                "paths": r.get("paths"),
                "obligations": sum(1 for o in r["obligations"] if o["kind"] != "vacuity"),
            }
        )
        tname = r.get("name") or r["task"]
        for o in r["obligations"]:
            if o["kind"] == "vacuity":
                grp = o["name"]
                vac.setdefault(grp, False)
                if o["result"] == "sat":
                    vac[grp] = True
                elif o["result"] == "unknown":
                    vac[grp] = vac[grp] or None
                continue
            if o["result"] == "sat" and any(matches_finding(kf, prop, o) for kf in known):
                # a recorded known finding: reported on its own line, not counted among the obligations
                kf = next(kf for kf in known if matches_finding(kf, prop, o))
                known_hits.append((kf, o))
                continue
            n_obl += 1
            if o["result"] == "unsat":
                n_dis += 1
                by_backend[o["backend"]] = by_backend.get(o["backend"], 0) + 1
                if o.get("crosscheck"):
                    k_ = "cvc5-crosscheck-" + o["crosscheck"]
                    by_backend[k_] = by_backend.get(k_, 0) + 1
                if len(samples) < 6 and o["backend"] != "simplifier":
                    samples.append({"obligation": o["name"], "kind": o["kind"], "backend": o["backend"], "time_s": o["time"], "hypotheses": o["nhyps"], "path_tail": o["trace"][-4:]})
            elif o["result"] == "sat":
                violations.append((tname, o))
            else:
                undecided.append([o["name"], f"solver: {o['reason']}"])
    # vacuity: every task must have a reachable precondition; a task with ensures must reach it
    framed = {tname for tname, o in violations if o["kind"] == "frame"}
    for grp, ok in vac.items():
        if ok is False and any(grp.startswith(t) for t in framed):
            continue  # every path of the task ended at a failed frame obligation (reported below)
        if ok is False:
            errors.append([grp, "vacuous: no path satisfies the precondition / reaches the postcondition"])
    if not results and not error:
        error = "no tasks"
    if n_obl == 0 and not error:
        errors.append([prop, "zero obligations generated"])
    # ---- output
    lines = []
    code = EXIT_OK
    seen_kf = set()
    for kf, o in known_hits:
        if kf["id"] in seen_kf:
            continue
        seen_kf.add(kf["id"])
        lines.append(f"KNOWN-FINDING: property={prop} {kf['what']}")
    replay_paths = []
    seen_names = set()
    frame_groups = {}  # written global -> [reproduced?, replay path, members tried]
    for tname, o in violations:
        if o["name"] in seen_names:
            continue  # one line per named obligation; further counter-models are other paths of the same clause
        seen_names.add(o["name"])
        if o["kind"] == "frame":
            # a broken frame is a broken proof, not a broken property: the per-call contract no longer implies
            # the every-history statement.  One report per written global; a violation only with a history
            # that fails natively (searched for on the first few obligations of the group).
            g = (o.get("meta") or {}).get("global")
            st = frame_groups.setdefault(g, [False, None, 0, o["name"]])
            if st[0] or st[2] >= 2:
                continue
            st[2] += 1
            path, reproduced = RP.write_replay(prop, tname, o)
            st[1] = st[1] or path
            if reproduced:
                st[0], st[1], st[3] = True, path, o["name"]
            continue
        path, reproduced = RP.write_replay(prop, tname, o)
        replay_paths.append(path)
        suffix = "" if reproduced else " no-failing-input-found"
        lines.append(f"VIOLATION property={prop} replay={path} obligation={o['name']}{suffix}")
        code = EXIT_VIOLATION
    for g, (reproduced, path, _n, oname) in frame_groups.items():
        if reproduced:
            replay_paths.append(path)
            lines.append(f"VIOLATION property={prop} replay={path} obligation={oname}")
            code = EXIT_VIOLATION
        else:
            undecided.append([oname, f"state outside the contract ({g}) is read or written: independence from earlier calls does not follow from the per-call contract, and the native search found no history-dependent input (see {path})"])
    # ---- bounded stand-in for what the engine could not decide: a task that ended UNDECIDED (construct outside the
    # subset, exploration budget) gets the native search of its replay hook - a corpus of inputs run through the real
    # code against the spec.  A failing input found there is a violation with a concrete witness (it can never be a
    # false alarm); finding none leaves the task UNDECIDED.  Labelled bounded, never counted as discharged.
    standin_log = []
    for r in results:
        if not r["undecided"] or os.environ.get("PYVC_NO_STANDIN"):
            continue
        tname = r.get("name") or r["task"]
        if any(t == tname for t, _ in violations):
            continue
        rec = {"name": f"{tname}.undecided", "kind": "undecided", "backend": "bounded-native-search", "result": "undecided", "time": 0.0,
               "meta": {"reasons": sorted({str(u[1])[:200] for u in r["undecided"]})[:5]}, "config": r.get("config")}
        if rec["name"] in seen_names:
            continue
        hook = RP.find_hook(rec)
        try:
            import contracts.replays as _R

            allowed = hook is not None and hook in _R.STANDIN_HOOKS
        except Exception:  # pylint: disable=broad-except
            allowed = False
        if not allowed:
            continue
        seen_names.add(rec["name"])
        path, reproduced = RP.write_replay(prop, tname, rec)
        standin_log.append({"task": tname, "tool": "native corpus search (contracts/replays.py:" + hook.__name__ + ")", "found_failing_input": bool(reproduced), "replay": path})
        if reproduced:
            replay_paths.append(path)
            lines.append(f"VIOLATION property={prop} replay={path} obligation={rec['name']} decided-by=bounded-native-search")
            code = EXIT_VIOLATION
    for n, ok, w in finite or []:
        if not ok:
            rec = {"name": f"{prop}.finite.{n}", "kind": "finite", "backend": "exhaustive-evaluation", "result": "sat", "time": 0.0, "meta": {"witness": w}, "model": {"witness": w}, "goal": n}
            path, _ = RP.write_replay(prop, "finite", rec)
            lines.append(f"VIOLATION property={prop} replay={path} obligation={rec['name']} witness={w}")
            code = EXIT_VIOLATION
    if error:
        errors.append([prop, error])
    if errors:
        for e in errors[:20]:
            lines.append(f"ENGINE-ERROR {e[0]}: {str(e[1]).splitlines()[0] if e[1] else ''}")
        if code == EXIT_OK:
            code = EXIT_ERROR
    if undecided:
        seen_u = set()
        for u in undecided:
            key = (u[0], u[1])
            if key in seen_u:
                continue
            seen_u.add(key)
            if len(seen_u) <= 20:
                lines.append(f"UNDECIDED {u[0]}: {u[1]}")
        if code == EXIT_OK:
            code = EXIT_UNDECIDED
    wall = time.time() - t0
    ev = {
        "property_id": prop,
        "tier": tier,
        "seed": seed,
        "level": "proof",
        "coverage": {
            "obligations": n_obl,
            "discharged": n_dis,
            "checker_cmd": f"./check {prop} --tier {tier}",
            "trusted_base": trusted_base_for(prop),
            "functions_under_contract": functions,
            "functions_executed_in_place": sorted(inlined),
            "backends": by_backend,
            "solver_time_s": round(solver_time, 3),
            "paths": paths,
            "undecided": len(undecided),
            "engine_errors": len(errors),
            "known_findings": sorted({kf["id"] for kf, _ in known_hits}),
            "known_finding_obligations": len(known_hits),
            "samples": samples or [{"note": "no solver-discharged obligation to show"}],
            "vacuity_guards": {k: bool(v) for k, v in vac.items()},
            "exit_code": code,
        },
        "assumptions": assumptions_for(prop),
        "wall_s": round(wall, 3),
        "violations": len(violations) + sum(1 for f in (finite or []) if not f[1]) + sum(1 for x in standin_log if x["found_failing_input"]),
    }
    if extra:
        ev["coverage"].update(extra)
    if standin_log:
        ev["coverage"].setdefault("bounded_standins", [])
        ev["coverage"]["bounded_standins"] = list(ev["coverage"]["bounded_standins"]) + [
            {"name": f"undecided task {x['task']}", "tool": x["tool"], "bound": "fixed corpus", "found_failing_input": x["found_failing_input"], "note": "stand-in for an undecided task; never counted as discharged"}
            for x in standin_log
        ]
    evdir = os.environ.get("VERIF_EVIDENCE_DIR") or os.path.join(VERIF, "evidence")
    os.makedirs(evdir, exist_ok=True)
    with open(os.path.join(evdir, f"{prop}.json"), "w", encoding="utf-8") as fh:
        json.dump(ev, fh, indent=1, default=str)
    lines.append(
        f"SUMMARY property={prop} tier={tier} obligations={n_obl} discharged={n_dis} violations={len(violations) + sum(1 for x in standin_log if x['found_failing_input'])} "
        f"known={len(seen_kf)} undecided={len(undecided)} errors={len(errors)} paths={paths} wall={wall:.1f}s"
    )
    return code, lines


def trusted_base_for(prop):
    try:
        from contracts import trusted

        return trusted.trusted_base(prop)
    except Exception:  # pylint: disable=broad-except
        return ["T-engine", "T-smt"]


def assumptions_for(prop):
    try:
        from contracts import trusted

        return trusted.assumptions(prop)
    except Exception:  # pylint: disable=broad-except
        return []
