"""Models of library functions used by the repository (time, AwesomeVersion, os, ...).

Filled property by property; each model names the dependency behaviour it assumes."""
from __future__ import annotations

import time
import calendar

import z3

from . import ops
from .core import SV, Unsupported
from .values import ModelFn


def m_time(it, a, k):
    """time.time(): an uninterpreted, non-decreasing clock (T-time)."""
    t = it.ctx.fresh("real", "now")
    last = it.ctx.ghost.get("__clock")
    if last is not None:
        it.ctx.add_fact(t.term >= last.term)
    it.ctx.ghost["__clock"] = t
    return t


def m_localtime(it, a, k):
    return LocalTime(it.ctx.fresh("int", "localtime"))


class LocalTime:
    def __init__(self, v):
        self.v = v


def m_timegm(it, a, k):
    v = a[0]
    if isinstance(v, LocalTime):
        return v.v
    return it.native_call(calendar.timegm, a, k)


def install(it):
    it.models[id(time.time)] = ModelFn("time.time", m_time)
    it.models[id(time.localtime)] = ModelFn("time.localtime", m_localtime)
    it.models[id(calendar.timegm)] = ModelFn("calendar.timegm", m_timegm)
    from timeit import default_timer

    it.models[id(default_timer)] = ModelFn("timer", m_time)
    from . import contract

    contract.install_vocabulary(it)
