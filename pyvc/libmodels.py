"""Models of library functions used by the repository (time, AwesomeVersion, os, ...).

Filled property by property; each model names the dependency behaviour it assumes."""
from __future__ import annotations

import time
import calendar

import z3

from . import ops
from .core import SV, Unsupported
from .values import ModelFn


def m_time(it, a, k):
    """time.time(): an uninterpreted, non-decreasing clock (T-time)."""
    t = it.ctx.fresh("real", "now")
    last = it.ctx.ghost.get("__clock")
    if last is not None:
        it.ctx.add_fact(t.term >= last.term)
    it.ctx.ghost["__clock"] = t
    return t


def m_localtime(it, a, k):
    v = it.ctx.fresh("int", "localtime")
    it.ctx.ghost["localtime"] = v
    return LocalTime(v)


class LocalTime:
    _pyvc_symbolic = True
    def __init__(self, v):
        self.v = v


def m_timegm(it, a, k):
    v = a[0]
    if isinstance(v, LocalTime):
        return v.v
    return it.raw_native(calendar.timegm, a, k)


def install(it):
    it.models[id(time.time)] = ModelFn("time.time", m_time)
    it.models[id(time.localtime)] = ModelFn("time.localtime", m_localtime)
    it.models[id(calendar.timegm)] = ModelFn("calendar.timegm", m_timegm)
    from timeit import default_timer

    # the elapsed-time debug branch of run_job is dropped (DESIGN section 4): timer() is constant
    it.models[id(default_timer)] = ModelFn("timer", lambda it2, a, k: 0.0)
    from . import contract

    contract.install_vocabulary(it)
    install_aw(it)
    install_vol(it)
    install_spec_prims(it)
    install_concurrency(it)


# =========================================================================== AwesomeVersion (T-aw)
from .core import BOOL, INT, STR, ExcVal, PyRaise, lift  # noqa: E402
from .laws import lawbook, py_strip  # noqa: E402

aw_string = z3.Function("aw_string", STR, STR)  # AwesomeVersion(s).string (prefix v stripped)
aw_known = z3.Function("aw_known", STR, BOOL)  # strategy != UNKNOWN
aw_gt = z3.Function("aw_gt", STR, STR, BOOL)  # _compare_versions(a, b)
aw_simple3 = z3.Function("aw_simple3", STR, BOOL)  # digits(.digits){0,2}
aw_sec = z3.Function("aw_sec", STR, INT, INT)  # section(i), i in 0..2


class AwVer:
    _pyvc_symbolic = True
    """AwesomeVersion(s) for a symbolic string s (already stripped)."""

    def __init__(self, term):
        self.term = term


def _aw_term(it, v):
    import awesomeversion

    if isinstance(v, AwVer):
        return v.term
    if isinstance(v, awesomeversion.AwesomeVersion):
        return lift(str(v))[1]
    raise Unsupported("AwesomeVersion compared with a non-version")


def _aw_literal_facts(it, t):
    """Facts about a literal version string, computed with the real library."""
    import awesomeversion

    from .core import lit_value

    s = lit_value(t)
    if s is None:
        return None
    lb = lawbook(it.ctx)
    if not lb._once("awlit", t):
        return s
    a = awesomeversion.AwesomeVersion(s)
    it.ctx.add_fact(aw_string(t) == lift(a.string)[1])
    it.ctx.add_fact(aw_known(t) == z3.BoolVal(a.strategy != awesomeversion.AwesomeVersionStrategy.UNKNOWN))
    import re

    simple = re.fullmatch(r"\d+(\.\d+){0,2}", s) is not None
    it.ctx.add_fact(aw_simple3(t) == z3.BoolVal(simple))
    if simple:
        for i in range(3):
            it.ctx.add_fact(aw_sec(t, i) == a.section(i))
    return s


def _aw_pair_law(it, a, b):
    """Numeric comparison, section by section, for simple versions with at most 3 sections."""
    lb = lawbook(it.ctx)
    if not lb._once("awpair", a, b):
        return
    a0, a1, a2 = (aw_sec(a, i) for i in range(3))
    b0, b1, b2 = (aw_sec(b, i) for i in range(3))
    lexgt = z3.Or(a0 > b0, z3.And(a0 == b0, z3.Or(a1 > b1, z3.And(a1 == b1, a2 > b2))))
    both = z3.And(aw_simple3(a), aw_simple3(b))
    it.ctx.add_fact(z3.Implies(both, aw_gt(a, b) == lexgt))
    for x in (a, b):
        if lb._once("awsimple", x):
            it.ctx.add_fact(z3.Implies(aw_simple3(x), z3.And(aw_known(x), aw_string(x) == x, aw_sec(x, 0) >= 0, aw_sec(x, 1) >= 0, aw_sec(x, 2) >= 0)))


def aw_compare(it, op, a, b, node=None):
    import awesomeversion

    ta, tb = _aw_term(it, a), _aw_term(it, b)
    _aw_literal_facts(it, ta)
    _aw_literal_facts(it, tb)
    _aw_pair_law(it, ta, tb)
    _aw_pair_law(it, tb, ta)
    same = aw_string(ta) == aw_string(tb)

    def strict(x, y):  # x > y
        if it.branch(same, node):
            return False
        if not it.branch(z3.And(aw_known(ta), aw_known(tb)), node):
            raise PyRaise(ExcVal(awesomeversion.AwesomeVersionCompareException, ("Can't compare",), site=it.site(node)))
        return ops.mk("bool", aw_gt(x, y))

    if op == "Gt":
        return strict(ta, tb)
    if op == "Lt":
        return strict(tb, ta)
    if op == "GtE":
        if it.branch(same, node):
            return True
        return strict(ta, tb)
    if op == "LtE":
        if it.branch(same, node):
            return True
        return strict(tb, ta)
    raise Unsupported(f"AwesomeVersion {op}")


def m_awesomeversion(it, a, k):
    import awesomeversion

    if ops.all_concrete(a) and ops.all_concrete(list(k.values())):
        return it.raw_native(awesomeversion.AwesomeVersion, a, k)
    if k:
        raise Unsupported("AwesomeVersion keyword arguments on symbolic value")
    v = ops.to_str(it, a[0])
    kind, t = lift(v)
    st = lawbook(it.ctx).strip(t)
    # a trailing "." is dropped by the constructor; the version laws speak about simple numeric
    # versions only, which have none
    return AwVer(st)


def install_aw(it):
    import awesomeversion

    it.models[id(awesomeversion.AwesomeVersion)] = ModelFn("AwesomeVersion", m_awesomeversion)
    it.aw_compare = aw_compare
    it.AwVer = AwVer


# =========================================================================== voluptuous (T-vol)
def _invalid(it, msg="invalid"):
    import voluptuous as vol

    raise PyRaise(ExcVal(vol.Invalid, (msg,), site="voluptuous"))


class FloatVal:
    _pyvc_symbolic = True
    """float(s) of a symbolic string: value / nan / inf flags are uninterpreted functions of s."""

    def __init__(self, src):
        self.src = src


def vol_apply(it, v, x):
    """Apply the voluptuous validator object `v` to value `x` (returns the validated value)."""
    import voluptuous as vol
    from .laws import py_float, py_float_inf, py_float_nan, py_float_ok

    if isinstance(v, vol.Schema):
        return vol_apply(it, v.schema, x)
    if isinstance(v, vol.Object):
        return _vol_object(it, v, x)
    if isinstance(v, vol.All):
        for sub in v.validators:
            x = vol_apply(it, sub, x)
        return x
    if isinstance(v, vol.Any):
        for sub in v.validators:
            try:
                return vol_apply(it, sub, x)
            except PyRaise as pr:
                if not issubclass(pr.exc.cls, vol.Invalid):
                    raise
        _invalid(it, "no valid value found")
    if isinstance(v, vol.Coerce):
        if v.type is int:
            try:
                return ops.to_int(it, x)
            except PyRaise as pr:
                if issubclass(pr.exc.cls, (ValueError, TypeError)):
                    _invalid(it, "expected int")
                raise
        if v.type is str:
            if isinstance(x, FloatVal):
                return ops.opaque_str(it, "strfloat")
            return ops.to_str(it, x)
        if v.type is float:
            x = ops.specialize(it, x)
            if isinstance(x, SV) and x.kind == "str":
                if not it.branch(py_float_ok(x.term)):
                    _invalid(it, "expected float")
                return FloatVal(x.term)
            if isinstance(x, SV) and x.kind == "int":
                return SV("real", z3.ToReal(x.term))
            if x is None or isinstance(x, FloatVal):
                if x is None:
                    _invalid(it, "expected float")
                return x
            try:
                return float(x)
            except (ValueError, TypeError):
                _invalid(it, "expected float")
        raise Unsupported(f"Coerce({v.type})")
    if isinstance(v, vol.Range):
        if not (v.min_included and v.max_included):
            raise Unsupported("exclusive Range")
        if isinstance(x, FloatVal):
            s = x.src
            nan, inf, val = py_float_nan(s), py_float_inf(s), py_float(s)
            conds = [z3.Not(nan)]
            if v.min is not None:
                conds.append(z3.Or(inf == 1, z3.And(inf == 0, val >= z3.RealVal(repr(float(v.min))))))
            if v.max is not None:
                conds.append(z3.Or(inf == -1, z3.And(inf == 0, val <= z3.RealVal(repr(float(v.max))))))
            if not it.branch(z3.And(conds)):
                _invalid(it, "value out of range")
            return x
        x2 = ops.specialize(it, x)
        if isinstance(x2, (int, float)) and not isinstance(x2, bool):
            # concrete number: voluptuous' own tests (`not v >= min` rejects NaN)
            if (v.min is not None and not x2 >= v.min) or (v.max is not None and not x2 <= v.max):
                _invalid(it, "value out of range")
            return x2
        if x2 is None or isinstance(x2, (str,)) or (isinstance(x2, SV) and x2.kind == "str"):
            _invalid(it, "invalid value or type (must have a partial ordering)")
        kind, t = lift(x2)
        if kind == "bool":
            t = z3.If(t, 1, 0)
            kind = "int"
        conds = []
        if kind == "int":
            if v.min is not None:
                conds.append(t >= int(v.min) if float(v.min).is_integer() else z3.ToReal(t) >= z3.RealVal(repr(v.min)))
            if v.max is not None:
                conds.append(t <= int(v.max) if float(v.max).is_integer() else z3.ToReal(t) <= z3.RealVal(repr(v.max)))
        elif kind == "real":
            if v.min is not None:
                conds.append(t >= z3.RealVal(repr(float(v.min))))
            if v.max is not None:
                conds.append(t <= z3.RealVal(repr(float(v.max))))
        else:
            raise Unsupported(f"Range on kind {kind}")
        if not it.branch(z3.And(conds) if conds else True):
            _invalid(it, "value out of range")
        return x2
    if isinstance(v, vol.In):
        try:
            c = ops.contains(it, list(v.container), x)
        except PyRaise:
            _invalid(it, "value is not allowed")
        if not it.branch(c):
            _invalid(it, "value is not allowed")
        return x
    if v is str:
        x2 = ops.specialize(it, x)
        if isinstance(x2, str) or (isinstance(x2, SV) and x2.kind == "str"):
            return x2
        _invalid(it, "expected str")
    if v is int:
        x2 = ops.specialize(it, x)
        if isinstance(x2, int) or (isinstance(x2, SV) and x2.kind in ("int", "bool")):
            return x2
        _invalid(it, "expected int")
    if v is None:
        if x is None:
            return x
        _invalid(it, "expected None")
    if isinstance(v, (str, int)) and not isinstance(v, bool):
        e = ops.eq_term(it, x, v)
        if not it.branch(e):
            _invalid(it, "not a valid value")
        return x
    import types as _t

    if isinstance(v, (_t.FunctionType,)):
        try:
            return it.call(v, [x], {})
        except PyRaise as pr:
            if issubclass(pr.exc.cls, vol.Invalid):
                raise
            if issubclass(pr.exc.cls, ValueError):
                _invalid(it, "not a valid value")
            raise
    if isinstance(v, dict):
        return _vol_mapping(it, v, x)
    raise Unsupported(f"voluptuous node {type(v).__name__}")


def _vol_object(it, v, x):
    import voluptuous as vol
    from .values import Obj

    if v.cls is not vol.UNDEFINED:
        if not (isinstance(x, Obj) and issubclass(x.pycls, v.cls)):
            _invalid(it, "expected object of class")
    if not isinstance(x, Obj):
        raise Unsupported("Object schema on non-object")
    out = {}
    errors = False
    first_exc = None
    for name, val in list(x.fields.items()):
        if val is None:
            continue
        if name not in v:
            errors = True
            first_exc = first_exc or ExcVal(vol.Invalid, ("extra keys not allowed",), site="voluptuous")
            continue
        try:
            out[name] = vol_apply(it, v[name], val)
        except PyRaise as pr:
            if issubclass(pr.exc.cls, vol.Invalid):
                errors = True
                first_exc = first_exc or pr.exc
                continue
            raise
    for key in v:
        if isinstance(key, vol.Required) and key.schema not in out:
            errors = True
    if errors:
        raise PyRaise(ExcVal(vol.MultipleInvalid, ("invalid object",), site=(first_exc.site if first_exc else "voluptuous")))
    return it.call(x.pycls, [], out)


def _vol_mapping(it, schema, x):
    raise Unsupported("voluptuous mapping schema on symbolic data")


def vol_ctor(cls):
    """Constructors of voluptuous nodes: `msg=` only affects error text; symbolic text is dropped."""

    def fn(it, a, k):
        k2 = dict(k)
        if "msg" in k2 and not ops.all_concrete([k2["msg"]]):
            k2["msg"] = "<symbolic text>"
        a2 = list(a)
        return it.raw_native(cls, a2, k2)

    return fn


def install_vol(it):
    import voluptuous as vol
    from voluptuous.humanize import humanize_error

    it.models[id(humanize_error)] = ModelFn("humanize_error", lambda it2, a, k: ops.opaque_str(it2, "humanize"))

    for cls in (vol.All, vol.Any, vol.Coerce, vol.Range, vol.In, vol.Schema, vol.Object):
        it.models[id(cls)] = ModelFn(f"vol.{cls.__name__}", vol_ctor(cls))
        it.type_models[cls] = lambda it2, obj, a, k: vol_apply(it2, obj, a[0])
    it.type_models[vol.validators.All] = lambda it2, obj, a, k: vol_apply(it2, obj, a[0])


# =========================================================================== spec primitives
def install_spec_prims(it):
    try:
        from spec import prims
    except Exception:  # pylint: disable=broad-except
        return
    from .laws import py_float, py_float_inf, py_float_nan, py_float_ok, py_int, py_int_ok, py_unhex_ok

    def sym1(f_native, f_sym):
        def fn(it2, a, k):
            if ops.all_concrete(a):
                return f_native(*a)
            return f_sym(it2, *a)

        return fn

    def s_int_ok(it2, s):
        s = ops.specialize(it2, s)
        kind, t = lift(s)
        if kind == "int":
            return True
        if kind != "str":
            return False
        return ops.mk("bool", py_int_ok(t))

    def s_int_of(it2, s):
        kind, t = lift(s)
        if kind == "int":
            return s
        return ops.mk("int", py_int(t))

    def s_float_ok(it2, s):
        kind, t = lift(s)
        return ops.mk("bool", py_float_ok(t))

    def s_float_in(it2, s, lo, hi):
        kind, t = lift(s)
        nan, inf, val = py_float_nan(t), py_float_inf(t), py_float(t)
        return ops.mk(
            "bool",
            z3.And(
                py_float_ok(t),
                z3.Not(nan),
                z3.Or(inf == 1, z3.And(inf == 0, val >= z3.RealVal(repr(float(lo))))),
                z3.Or(inf == -1, z3.And(inf == 0, val <= z3.RealVal(repr(float(hi))))),
            ),
        )

    def s_is_hex(it2, s, n):
        kind, t = lift(s)
        return ops.mk("bool", z3.And(lawbook(it2.ctx).length(t) == n, py_unhex_ok(t)))

    def s_version(it2, s):
        kind, t = lift(s)
        return ops.mk("bool", version_ge_14_term(it2, t))

    def s_comma(it2, s):
        return it2.call(it2.getattr(s, "split"), [","], {})

    it.models[id(prims.int_ok)] = ModelFn("int_ok", sym1(prims.int_ok, s_int_ok))
    it.models[id(prims.int_of)] = ModelFn("int_of", sym1(prims.int_of, s_int_of))
    it.models[id(prims.float_ok)] = ModelFn("float_ok", sym1(prims.float_ok, s_float_ok))
    it.models[id(prims.float_in)] = ModelFn("float_in", sym1(prims.float_in, s_float_in))
    it.models[id(prims.is_hex)] = ModelFn("is_hex", sym1(prims.is_hex, s_is_hex))
    it.models[id(prims.version_ge_14)] = ModelFn("version_ge_14", sym1(prims.version_ge_14, s_version))
    it.models[id(prims.comma_parts)] = ModelFn("comma_parts", sym1(prims.comma_parts, s_comma))

    def s_line_fields(it2, s):
        r = it2.call(it2.getattr(s, "rstrip"), [], {})
        return it2.call(it2.getattr(r, "split"), [";"], {})

    def s_carriable(it2, p):
        from .laws import py_rstrip

        kind, t = lift(p)
        lb = lawbook(it2.ctx)
        return ops.mk("bool", z3.And(z3.Not(lb.contains(t, lift(";")[1])), lb.rstrip(t) == t))

    def s_le16hex(it2, *words):
        from .models import le16hex_term

        ws = []
        for w in words:
            kind, t = lift(w)
            ws.append(z3.If(t, 1, 0) if kind == "bool" else t)
        return ops.mk("str", le16hex_term(it2, ws))

    def s_hex_of(it2, data):
        from .models import m_hexlify

        hb = m_hexlify(it2, [data], {})
        return ops.mk("str", hb.text) if hasattr(hb, "text") else hb.decode("utf-8")

    def s_hex_words_ok(it2, s, n):
        kind, t = lift(s)
        lb = lawbook(it2.ctx)
        ok, _b = lb.unhexlify(t)
        return ops.mk("bool", z3.And(ok, lb.length(t) == 4 * n))

    def s_hex_word(it2, s, i):
        from .models import hex_word_uf

        kind, t = lift(s)
        return ops.mk("int", hex_word_uf(t, lift(i)[1]))

    def native_or(f_native, f_sym):
        def fn(it2, a, k):
            if ops.all_concrete(a):
                return f_native(*a)
            return f_sym(it2, *a)

        return fn

    it.models[id(prims.le16hex)] = ModelFn("le16hex", native_or(prims.le16hex, s_le16hex))
    it.models[id(prims.hex_of)] = ModelFn("hex_of", native_or(prims.hex_of, s_hex_of))
    it.models[id(prims.hex_words_ok)] = ModelFn("hex_words_ok", native_or(prims.hex_words_ok, s_hex_words_ok))
    it.models[id(prims.hex_word)] = ModelFn("hex_word", native_or(prims.hex_word, s_hex_word))
    it.models[id(prims.line_fields)] = ModelFn("line_fields", sym1(prims.line_fields, s_line_fields))
    it.models[id(prims.no_semicolon_clean_end)] = ModelFn("carriable", sym1(prims.no_semicolon_clean_end, s_carriable))


py_version_ge14 = z3.Function("py_version_ge14", STR, BOOL)


def version_ge_14_term(it, t):
    """'s is a usable version >= 1.4' in terms of the AwesomeVersion abstraction:
    is_version(s) succeeds  <=>  not (AwesomeVersion("1.4") > AwesomeVersion(str(s).strip())) and no exception."""
    st = lawbook(it.ctx).strip(t)
    ref = lift("1.4")[1]
    _aw_literal_facts(it, ref)
    _aw_literal_facts(it, st)
    _aw_pair_law(it, ref, st)
    _aw_pair_law(it, st, ref)
    same = aw_string(ref) == aw_string(st)
    return z3.Or(same, z3.And(aw_known(ref), aw_known(st), z3.Not(aw_gt(ref, st))))


# =========================================================================== threading / asyncio (T-serial, T-dict)
def install_concurrency(it):
    import asyncio
    import threading

    from .values import Awaitable, Coro, Modelled

    g = it.ctx.ghost

    def spawn(kind, target, args=()):
        g.setdefault("spawned", []).append({"kind": kind, "target": target, "args": list(args)})

    def m_timer(it2, a, k):
        interval, fn = a[0], a[1]
        t = Modelled("Timer")

        def start(it3, aa, kk):
            spawn("timer", fn)
            g["timers_armed"] = g.get("timers_armed", 0) + 1
            return None

        def cancel(it3, aa, kk):
            g["timers_cancelled"] = g.get("timers_cancelled", 0) + 1
            return None

        t.attrs.update(start=ModelFn("Timer.start", start), cancel=ModelFn("Timer.cancel", cancel), interval=interval)
        return t

    def m_thread(it2, a, k):
        target = k.get("target")
        t = Modelled("Thread")
        t.attrs.update(
            start=ModelFn("Thread.start", lambda it3, aa, kk: spawn("thread", target, k.get("args", ()))),
            daemon=False,
        )
        return t

    def m_event(it2, a, k):
        e = Modelled("Event")
        state = {"set": False}
        e.attrs.update(
            is_set=ModelFn("Event.is_set", lambda it3, aa, kk: state["set"]),
            set=ModelFn("Event.set", lambda it3, aa, kk: state.__setitem__("set", True)),
        )
        return e

    def m_lock(it2, a, k):
        l = Modelled("Lock")
        l.attrs.update(
            __enter__=ModelFn("Lock.__enter__", lambda it3, aa, kk: None),
            __exit__=ModelFn("Lock.__exit__", lambda it3, aa, kk: False),
        )
        return l

    def m_loop(it2, a, k):
        loop = Modelled("loop")

        def run_in_executor(it3, aa, kk):
            fn, rest = aa[1], aa[2:]

            def on_await(it4):
                r = it4.call(fn, list(rest), {})
                if it4.env.get("executor_cancellable"):
                    # the awaiting coroutine is a task that may be cancelled while the executor thread works: the
                    # thread runs to its end regardless, the task gets CancelledError at this await
                    kk2 = it4.ctx.choose([z3.BoolVal(True), z3.BoolVal(True)], labels=["completed", "cancelled-while-in-executor"], site="run_in_executor")
                    if kk2 == 1:
                        g["cancel_delivered"] = True
                        raise PyRaise(ExcVal(asyncio.CancelledError, (), site="run_in_executor"))
                return r

            return Awaitable(on_await, "run_in_executor")

        def create_task(it3, aa, kk):
            coro = aa[0]
            spawn("task", coro)
            task = Modelled("Task")
            st = {"cancelled": False}
            task.attrs.update(
                cancel=ModelFn("Task.cancel", lambda it4, a4, k4: st.__setitem__("cancelled", True)),
                cancelled=ModelFn("Task.cancelled", lambda it4, a4, k4: st["cancelled"]),
            )
            task._pyvc_await = lambda it4: None
            return task

        def call_later(it3, aa, kk):
            spawn("call_later", aa[1])
            h = Modelled("TimerHandle")
            h.attrs.update(cancel=ModelFn("TimerHandle.cancel", lambda it4, a4, k4: None))
            return h

        loop.attrs.update(
            run_in_executor=ModelFn("loop.run_in_executor", run_in_executor),
            create_task=ModelFn("loop.create_task", create_task),
            call_later=ModelFn("loop.call_later", call_later),
        )
        return loop

    def m_sleep(it2, a, k):
        def on_await(it3):
            kk = it3.ctx.choose([z3.BoolVal(True), z3.BoolVal(True)], labels=["slept", "cancelled"], site="asyncio.sleep")
            g.setdefault("sleeps", []).append(a[0] if a else None)
            if kk == 1:
                g["cancel_delivered"] = True
                raise PyRaise(ExcVal(asyncio.CancelledError, (), site="asyncio.sleep"))
            return None

        return Awaitable(on_await, "sleep")

    it.models[id(threading.Timer)] = ModelFn("threading.Timer", m_timer)
    it.models[id(threading.Thread)] = ModelFn("threading.Thread", m_thread)
    it.models[id(threading.Event)] = ModelFn("threading.Event", m_event)
    it.models[id(threading.Lock)] = ModelFn("threading.Lock", m_lock)
    it.models[id(asyncio.get_running_loop)] = ModelFn("asyncio.get_running_loop", m_loop)
    it.models[id(asyncio.sleep)] = ModelFn("asyncio.sleep", m_sleep)
