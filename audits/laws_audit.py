"""Bounded audits of the *assumptions* (trusted base), never of the properties.

Each audit evaluates an assumed law / dependency contract on the real CPython builtins or
libraries over a finite corpus.  They are labelled bounded and are reported under
coverage.bounded_standins; they are never counted as discharged obligations.
"""
from __future__ import annotations

import binascii
import itertools
import json
import os
import pickle
import random
import struct
import tempfile

ALPHABET = [";", "/", " ", "\n", "a", "1", "-", "é"]


def _strings(max_len, rnd, n_random=400):
    out = [""]
    for n in range(1, max_len + 1):
        if len(ALPHABET) ** n <= 5000:
            out += ["".join(t) for t in itertools.product(ALPHABET, repeat=n)]
    for _ in range(n_random):
        k = rnd.randint(0, 12)
        out.append("".join(rnd.choice(ALPHABET + ["\t", "0", "9", "x", "\r", "𝟙", "٣"]) for _ in range(k)))
    return out


def audit_text_laws(seed=0, tier="quick"):
    """S-, R-, N-laws of pyvc/laws.py on real str methods."""
    rnd = random.Random(seed)
    strs = _strings(4 if tier == "quick" else 5, rnd, 400 if tier == "quick" else 4000)
    checked = 0
    bad = []
    seps = [";", "/", ","]

    def ck(name, ok, witness):
        nonlocal checked
        checked += 1
        if not ok and len(bad) < 5:
            bad.append(f"{name}: {witness!r}")

    for s in strs:
        r = s.rstrip()
        ck("splitlines-empty-iff-empty", (len(s.splitlines()) == 0) == (s == ""), s)
        try:
            _u = binascii.unhexlify(s)
        except (ValueError, binascii.Error):
            _u = None
        if _u is not None:
            try:
                ck("fromhex-extends-unhexlify", bytes.fromhex(s) == _u, s)
            except ValueError:
                ck("fromhex-extends-unhexlify", False, s)
        ck("rstrip-prefix", s.startswith(r), s)
        ck("rstrip-idempotent", r.rstrip() == r, s)
        ck("rstrip-newline", (s + "\n").rstrip() == r, s)
        for ch in (";", "/", ","):
            ck("rstrip-keeps-nonblank", (ch in r) == (ch in s), s)
        for d in seps:
            parts = s.split(d)
            ck("split-len>=1", len(parts) >= 1, s)
            ck("join-split", d.join(parts) == s, s)
            ck("split-no-sep", all(d not in p for p in parts), s)
            ck("split-single", (d not in s) == (len(parts) == 1), s)
            if r == s:
                ck("split-last-clean", parts[-1].rstrip() == parts[-1], s)
    sample = strs[:: max(1, len(strs) // 150)]
    for x in sample:
        for y in sample[::7]:
            for d in seps:
                ck("split-concat", (x + d + y).split(d) == x.split(d) + y.split(d), (x, y, d))
            ry = y.rstrip()
            if ry != "":
                ck("rstrip-concat", (x + y).rstrip() == x + ry, (x, y))
            else:
                ck("rstrip-blank-tail", (x + y).rstrip() == x.rstrip(), (x, y))
            for ch in (";", "/", ",", "\n"):
                ck("contains-concat", (ch in (x + y)) == ((ch in x) or (ch in y)), (x, y, ch))
    for n in list(range(-300, 300)) + [rnd.randint(-10**12, 10**12) for _ in range(300)]:
        t = str(n)
        ck("int-str", int(t) == n, n)
        ck("str-nonempty", len(t) >= 1 and not any(c in t for c in ";/, \n"), n)
        ck("str-clean", t.strip() == t, n)
    for s in strs[:3000]:
        try:
            v = int(s)
        except ValueError:
            continue
        ck("str-int-canonical", int(str(v)) == v, s)
    return {"name": "T-str laws on real str/int", "tool": "native evaluation", "bound": f"{len(strs)} strings (alphabet of {len(ALPHABET)} to length {4 if tier == 'quick' else 5} + random)", "cases": checked, "failed": bad}


def audit_hex_laws(seed=0, tier="quick"):
    rnd = random.Random(seed)
    checked, bad = 0, []
    vals = [0, 1, 255, 256, 65535, 65534, 4660]
    for n in (1, 2, 3, 4, 5):
        for _ in range(200):
            ws = [rnd.choice(vals + [rnd.randint(0, 65535)]) for _ in range(n)]
            h = binascii.hexlify(struct.pack(f"<{n}H", *ws)).decode()
            checked += 1
            ok = len(h) == 4 * n and struct.unpack(f"<{n}H", binascii.unhexlify(h)) == tuple(ws) and h.rstrip() == h and ";" not in h
            if not ok and len(bad) < 5:
                bad.append(("pack-hexlify", ws))
    for bad_w in (-1, 65536, 70000):
        checked += 1
        try:
            struct.pack("<1H", bad_w)
            bad.append(("range", bad_w))
        except struct.error:
            pass
    for s in ["", "0", "zz", "0g", "00", "0A1b", " 00", "00 ", "٠٠", "ab" * 10, "abc"]:
        checked += 1
        try:
            b = binascii.unhexlify(s)
            ok = len(s) % 2 == 0 and all(c in "0123456789abcdefABCDEF" for c in s)
        except (binascii.Error, ValueError):
            ok = not (len(s) % 2 == 0 and all(c in "0123456789abcdefABCDEF" for c in s))
        if not ok and len(bad) < 5:
            bad.append(("unhex-ok", s))
    return {"name": "T-hex laws on binascii/struct", "tool": "native evaluation", "bound": "1..5 words, boundary + random values", "cases": checked, "failed": [str(b) for b in bad]}


def crc16_modbus(data: bytes) -> int:
    """CRC-16/MODBUS bit by bit: reflected polynomial 0xA001, init 0xFFFF (spec function)."""
    crc = 0xFFFF
    for b in data:
        crc ^= b
        for _ in range(8):
            crc = (crc >> 1) ^ 0xA001 if crc & 1 else crc >> 1
    return crc


def audit_crc(seed=0, tier="quick"):
    from mysensors.ota import compute_crc

    rnd = random.Random(seed)
    n = 300 if tier == "quick" else 2000
    bad = []
    for i in range(n):
        ln = rnd.choice([0, 1, 15, 16, 17, 127, 128, 129, rnd.randint(0, 512)])
        buf = bytes(rnd.getrandbits(8) for _ in range(ln))
        if compute_crc(buf) != crc16_modbus(buf) and len(bad) < 5:
            bad.append(buf.hex())
    return {"name": "T-crc: crcmod 'modbus' equals the bitwise CRC-16/MODBUS", "tool": "native evaluation", "bound": f"{n} random buffers, lengths 0..512", "cases": n, "failed": bad}


def _ihex(data: bytes) -> str:
    """independent Intel-HEX writer (record type 00 data, 01 EOF)"""
    lines = []
    for off in range(0, len(data), 16):
        chunk = data[off : off + 16]
        rec = bytes([len(chunk), (off >> 8) & 0xFF, off & 0xFF, 0]) + chunk
        ck = (-sum(rec)) & 0xFF
        lines.append(":" + rec.hex().upper() + f"{ck:02X}")
    lines.append(":00000001FF")
    return "\n".join(lines) + "\n"


def audit_ihex(seed=0, tier="quick"):
    from mysensors.ota import load_fw

    rnd = random.Random(seed)
    n = 40 if tier == "quick" else 200
    bad = []
    d = tempfile.mkdtemp(prefix="ihex_")
    try:
        for i in range(n):
            ln = rnd.choice([1, 15, 16, 17, 127, 128, 129, 255, 256, rnd.randint(1, 4096)])
            img = bytes(rnd.getrandbits(8) for _ in range(ln))
            fn = os.path.join(d, f"fw{i}.hex")
            with open(fn, "w", encoding="utf-8") as fh:
                fh.write(_ihex(img))
            got = load_fw(fn)
            if got != img and len(bad) < 5:
                bad.append(f"len {ln}")
            os.unlink(fn)
    finally:
        os.rmdir(d)
    return {"name": "T-ihex: an Intel-HEX file loads to exactly the bytes it encodes (C09 clause, bounded stand-in)", "tool": "native evaluation of load_fw against an independent HEX writer", "bound": f"{n} images of 1..4096 bytes", "cases": n, "failed": bad}


def _sample_network():
    from mysensors.sensor import ChildSensor, Sensor

    s = {}
    for n in (1, 7, 254):
        sen = Sensor(n)
        sen.type = 17
        sen.sketch_name = "sk" + "é" * (n % 3)
        sen.battery_level = n % 101
        sen.protocol_version = "2.0"
        sen.children[0] = ChildSensor(0, 6, "temp")
        sen.children[0].values[0] = "20.5"
        sen.children[3] = ChildSensor(3, 3, "")
        sen.children[3].values[2] = "1"
        s[n] = sen
    return s


def audit_decoders(seed=0, tier="quick"):
    """T-json / T-pickle: on every truncation and zero-fill of a valid file the decoders raise only classes
    of the assumed sets (contracts/c12_persistence.py)."""
    from mysensors.persistence import MySensorsJSONDecoder, MySensorsJSONEncoder

    net = _sample_network()
    js = json.dumps(net, cls=MySensorsJSONEncoder, indent=4).encode()
    pk = pickle.dumps(net, pickle.HIGHEST_PROTOCOL)
    json_ok = (ValueError,)
    pickle_ok = (pickle.UnpicklingError, EOFError, AttributeError, ImportError, IndexError, ValueError)
    seen = {"json": {}, "pickle": {}}
    bad = []
    cases = 0
    step = 1 if tier == "thorough" else 1
    for fmt, blob, okc in (("json", js, json_ok), ("pickle", pk, pickle_ok)):
        variants = [blob[:i] for i in range(0, len(blob), step)] + [b"\0" * len(blob), b"\0" * 7]
        for v in variants:
            cases += 1
            try:
                if fmt == "json":
                    json.loads(v.decode("utf-8"), cls=MySensorsJSONDecoder)
                else:
                    pickle.loads(v)
            except okc as e:
                seen[fmt][type(e).__name__] = seen[fmt].get(type(e).__name__, 0) + 1
            except Exception as e:  # noqa: BLE001 - an unexpected class falsifies the assumption
                if len(bad) < 5:
                    bad.append(f"{fmt}: {type(e).__name__} on a {len(v)}-byte prefix")
    return {"name": "T-json/T-pickle: exception classes on damaged files", "tool": "native evaluation", "bound": f"all {len(js)} + {len(pk)} truncations and zero-fills of one sample file per format", "cases": cases, "failed": bad, "classes_seen": seen}


def audit_roundtrip(seed=0, tier="quick"):
    """T-json / T-pickle round trip of a sample network through the real libraries and the repository's hooks."""
    from mysensors.persistence import MySensorsJSONDecoder, MySensorsJSONEncoder

    net = _sample_network()
    bad = []

    def view(d):
        return {
            n: (s.sensor_id, s.type, s.sketch_name, s.sketch_version, s.battery_level, s.protocol_version, s.heartbeat,
                {c: (ch.id, ch.type, ch.description, dict(ch.values)) for c, ch in s.children.items()})
            for n, s in d.items()
        }

    a = json.loads(json.dumps(net, cls=MySensorsJSONEncoder), cls=MySensorsJSONDecoder)
    b = pickle.loads(pickle.dumps(net))
    if view(a) != view(net):
        bad.append("json")
    if view(b) != view(net):
        bad.append("pickle")
    if view(a) != view(b):
        bad.append("formats differ")
    return {"name": "T-json/T-pickle: library round trip on a sample network", "tool": "native evaluation", "bound": "one sample network (3 nodes, 2 children each)", "cases": 3, "failed": bad}


def audit_awesomeversion(seed=0, tier="quick"):
    """T-aw: for numeric versions a.b[.c] the comparison is numeric, section by section."""
    from awesomeversion import AwesomeVersion

    bad = []
    cases = 0
    refs = [(1, 4), (1, 5), (2, 0), (2, 1), (2, 2)]
    for M in range(0, 4):
        for m in range(0, 13):
            for p in [None, 0, 1, 2, 3]:
                s = f"{M}.{m}" + ("" if p is None else f".{p}")
                for ra, rb in refs:
                    cases += 1
                    want = (M, m, p or 0) > (ra, rb, 0)
                    if (AwesomeVersion(s) > AwesomeVersion(f"{ra}.{rb}")) != want and len(bad) < 5:
                        bad.append(f"{s} > {ra}.{rb}")
                    want2 = (ra, rb, 0) > (M, m, p or 0)
                    if (AwesomeVersion(f"{ra}.{rb}") > AwesomeVersion(s)) != want2 and len(bad) < 5:
                        bad.append(f"{ra}.{rb} > {s}")
    return {"name": "T-aw: AwesomeVersion '>' is numeric for major.minor[.patch]", "tool": "native evaluation", "bound": "major 0..3 x minor 0..12 x patch none/0..3 against the five supported versions", "cases": cases, "failed": bad}


def audit_engine(seed=0, tier="quick"):
    import logging

    from . import engine_diff

    logging.disable(logging.CRITICAL)
    try:
        return engine_diff.run(seed, tier)
    finally:
        logging.disable(logging.NOTSET)


PER_PROP = {
    "C01": [audit_text_laws, audit_hex_laws, audit_engine],
    "C04": [audit_engine],
    "C07": [audit_engine],
    "C08": [audit_engine],
    "C14": [audit_engine],
    "C02": [audit_text_laws],
    "C03": [audit_text_laws, audit_hex_laws, audit_awesomeversion],
    "C05": [audit_text_laws, audit_engine],
    "C09": [audit_hex_laws, audit_crc, audit_ihex],
    "C10": [audit_hex_laws, audit_engine],
    "C11": [audit_roundtrip],
    "C13": [audit_decoders],
    "C17": [audit_text_laws],
    "C18": [audit_awesomeversion],
}


def run_for(prop, seed=0, tier="quick"):
    out = []
    for fn in PER_PROP.get(prop, []):
        try:
            out.append(fn(seed, tier))
        except Exception as e:  # noqa: BLE001
            out.append({"name": fn.__name__, "tool": "native evaluation", "bound": "-", "cases": 0, "failed": [f"audit crashed: {type(e).__name__}: {e}"]})
    return out
