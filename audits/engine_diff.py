"""Engine <-> CPython differential (audit of T-engine and T-vol; bounded, labelled as such).

The same AST interpreter that generates the verification conditions runs here in *concrete mode*: a
gateway is built by interpreting the real constructors, random histories of lines are fed to it and to a
real gateway running under CPython, and after every line the returned reply (or the escaping exception
class), the whole node/child/value tree, the transient state and the queued jobs must be identical.
This exercises statement/expression semantics, attribute/property/MRO handling, keyword binding,
exception handling, the enum and registry dispatch, and - because `Message.validate` is interpreted too -
the engine's model of voluptuous against the real library.  It does not exercise the array-encoded heap
(concrete containers are plain dicts) nor the text laws (audited separately).
"""
from __future__ import annotations

import random
from unittest import mock

PAYLOADS = ["", "0", "1", "2", "-1", "100", "101", " 7 ", "abc", "Off", "HeatOn", "Min", "Auto", "M", "I", "ffffff", "gggggg",
            "ffffffff", "1.5", "nan", "inf", "100.0", "100.1", "-1.0", "1,2,3", "1,2", "1.4", "1.3", "2.0.0", "254", "255",
            "zz", "0100", "010001000000", "0100010000000000ffff0000", "é", "a b"]


def _line(rnd, const):
    if rnd.random() < 0.06:
        return rnd.choice(["", "garbage", "1;2;3", "1;2;3;4;5;6;7", ";;;;;", "a;b;c;d;e;f", "1;1;1;1;1", "\n", "1;255;3;0;3"])
    node = rnd.choice([1, 1, 1, 2, 255, 0, 256, -1])
    child = rnd.choice([0, 0, 1, 255, 255, 7, 256])
    cmd = rnd.choice([0, 1, 1, 2, 3, 3, 3, 4, 5])
    subs = [int(s) for s in const.VALID_MESSAGE_TYPES.get(cmd, [])] or [0]
    sub = rnd.choice(subs + [max(subs) + 1, -1]) if rnd.random() < 0.1 else rnd.choice(subs)
    if cmd == 3 and rnd.random() < 0.5:
        sub = rnd.choice([0, 1, 3, 6, 11, 12, 14, 22, 32, 2, 9])
    if cmd == 0 and rnd.random() < 0.4:
        sub, child = 17, 255
    ack = rnd.choice([0, 0, 0, 1, 2])
    payload = rnd.choice(PAYLOADS)
    eol = rnd.choice(["\n", "\r\n", "", " \n"])
    return f"{node};{child};{cmd};{ack};{sub};{payload}{eol}"


def _real_tree(gw):
    out = {}
    for n, s in gw.sensors.items():
        out[n] = (
            s.sensor_id, s.type, s.sketch_name, s.sketch_version, s.battery_level, s.protocol_version, s.heartbeat,
            {c: (ch.id, ch.type, ch.description, dict(ch.values)) for c, ch in s.children.items()},
            {c: (ch.id, ch.type, ch.description, dict(ch.values)) for c, ch in s.new_state.items()},
            list(s.queue), s.reboot,
        )
    return out


def _int_tree(gw):
    out = {}
    for n, s in gw.fields["sensors"].items():
        f = s.fields

        def kids(d):
            return {c: (ch.fields["id"], ch.fields["type"], ch.fields["description"], dict(ch.fields["values"])) for c, ch in d.items()}

        out[n] = (
            f["sensor_id"], f["type"], f["sketch_name"], f["sketch_version"], f["_battery_level"], f["_protocol_version"],
            f["_heartbeat"], kids(f["children"]), kids(f["new_state"]), list(f["queue"]), f["reboot"],
        )
    return out


def run(seed=0, tier="quick"):
    import time as _time

    import mysensors
    from mysensors import task as T
    from mysensors.const import get_const
    from pyvc import verify
    from pyvc.core import Ctx, PyRaise, Unsupported
    from pyvc.interp import Interp
    from pyvc.values import BoundMethod

    rnd = random.Random(seed)
    runs = 8 if tier == "quick" else 40
    steps = 25 if tier == "quick" else 40
    calls = 0
    bad = []
    unsupported = 0
    fixed_time = _time.localtime(1_700_000_000)
    with mock.patch("time.localtime", lambda *a: fixed_time):
        for version in ("1.4", "1.5", "2.0", "2.1", "2.2"):
            const = get_const(version)
            for r in range(runs):
                real = mysensors.Gateway(event_callback=None, protocol_version=version)
                real.tasks = T.SyncTasks(real.const, False, "x.json", real.sensors, mock.MagicMock())
                ctx = Ctx(check_feasibility=False)
                it = Interp(ctx, verify.default_roots())
                it.models.pop(id(_time.localtime), None)
                for k in [k for k, m in list(it.models.items()) if m.name in ("time.localtime", "calendar.timegm")]:
                    it.models.pop(k)
                gw = it.call(mysensors.Gateway, [], {"event_callback": None, "protocol_version": version})
                tasks = it.call(T.SyncTasks, [gw.fields["const"], False, "x.json", gw.fields["sensors"], mock.MagicMock()], {})
                it.setattr(gw, "tasks", tasks)
                logic = it.getattr(gw, "logic")
                if rnd.random() < 0.5:
                    # an update session on node 1, once it exists
                    pending_update = True
                else:
                    pending_update = False
                for s in range(steps):
                    line = _line(rnd, const)
                    calls += 1
                    try:
                        a = real.logic(line)
                        ea = None
                    except Exception as e:  # noqa: BLE001
                        a, ea = None, type(e).__name__
                    try:
                        b = it.call(logic, [line], {})
                        eb = None
                    except PyRaise as pr:
                        b, eb = None, pr.exc.cls.__name__
                    except Unsupported as u:
                        unsupported += 1
                        bad.append(f"{version}: interpreter could not run {line!r}: {u}")
                        break
                    if (a, ea) != (b, eb):
                        bad.append(f"{version} after {s} lines, line {line!r}: CPython {(a, ea)!r}, engine {(b, eb)!r}")
                        break
                    ta, tb = _real_tree(real), _int_tree(gw)
                    if ta != tb:
                        bad.append(f"{version} after line {line!r}: state trees differ")
                        break
                    qa = [f(*args) for f, args in list(real.tasks.queue)]
                    qb = [it.call(f, list(args), {}) for f, args in list(tasks.fields["queue"])]
                    if qa != qb:
                        bad.append(f"{version} after line {line!r}: queued jobs differ: {qa!r} vs {qb!r}")
                        break
                    real.tasks.queue.clear()
                    tasks.fields["queue"].clear()
                    if pending_update and 1 in real.sensors and rnd.random() < 0.3:
                        img = bytes(rnd.getrandbits(8) for _ in range(rnd.choice([1, 16, 40, 129])))
                        real.tasks.ota.make_update(1, 1, 1, img)
                        it.call(it.getattr(tasks.fields["ota"], "make_update"), [1, 1, 1, img], {})
                        pending_update = False
                    if 1 in real.sensors and 0 in real.sensors[1].children and rnd.random() < 0.15:
                        vt, val = rnd.choice([(2, "1"), (2, "x"), (3, "50"), (47, "hello"), (2, "a;b")])
                        try:
                            real.set_child_value(1, 0, vt, val)
                            ea = None
                        except Exception as e:  # noqa: BLE001
                            ea = type(e).__name__
                        try:
                            it.call(it.getattr(gw, "set_child_value"), [1, 0, vt, val], {})
                            eb = None
                        except PyRaise as pr:
                            eb = pr.exc.cls.__name__
                        eb = {"MultipleInvalid": "MultipleInvalid"}.get(eb, eb)
                        if (ea is None) != (eb is None):
                            bad.append(f"{version}: set_child_value(1,0,{vt},{val!r}): CPython {ea}, engine {eb}")
                            break
                if len(bad) >= 5:
                    break
            if len(bad) >= 5:
                break
    return {
        "name": "T-engine / T-vol: the AST interpreter in concrete mode agrees with CPython on Gateway.logic histories",
        "tool": "differential execution (engine interpreter vs CPython) of the real source",
        "bound": f"5 versions x {runs} random histories x <= {steps} lines, with update calls and set_child_value calls interleaved",
        "cases": calls,
        "failed": bad[:5],
    }
